"""C20 — behaviour is independent of compiler, optimisation level and API switches (partial; DESIGN §5 C20)

Correspondence = the configuration matrix: the harness is built WITHOUT sanitizers with
{g++ 12, clang++ 14} x {-O0, -O2, -O3} x {deprecated API on, SIGCXX_DISABLE_DEPRECATED} from /repo's
current tree and every configuration runs the same programs (all runtime corpora + generated ones);
every trace must equal the model's (hence all configurations agree with each other); the same programs also run in
the sanitized reference build (g++ -O1 ASan+UBSan), where any report is a failure.  Thorough adds
clang -fsanitize=undefined,function (a call through a mismatched function type — exactly the erased call
path) and valgrind memcheck (uninitialised reads) on a sample.
"""
import glob
import hashlib
import os
import subprocess
import sys
import time
from concurrent.futures import ThreadPoolExecutor

sys.path.insert(0, os.path.dirname(os.path.dirname(os.path.abspath(__file__))))
import common
import runtime
from runtime import Profile
from props import rt

PID = "C20"
LEVEL = "proof"
MODULE = "Sigc.Props.C20"
REQUIRED = ["Sigc.C20.copy_ok", "Sigc.C20.move_ok", "Sigc.C20.emitLoop_calls_only_typed_reps",
            # the lift to all histories (Sigc/Lemmas/InvCall.lean through the schema of Sigc/Lemmas/InvSchema.lean)
            "Sigc.C20.callHasFn_reachable", "Sigc.C20.callHasFn_runTop_from", "Sigc.C20.callHasFn_execLine",
            "Sigc.C20.callHasFn_execOp", "Sigc.C20.callHasFn_emitImpl", "Sigc.C20.callHasFn_invokeFun",
            "Sigc.C20.callHasFn_every_function", "Sigc.C20.callHasFn_emitLoop", "Sigc.C20.callHasFn_teardown",
            "Sigc.C20.reachable_callable_has_functor", "Sigc.C20.emitLoop_finds_functor",
            "Sigc.C20.deref_finds_functor", "Sigc.C20.callS_finds_functor", "Sigc.C20.skip_iff_empty",
            "Sigc.C20.emitLoop_skips_empty", "Sigc.C20.emitLoop_enters_invokeFun",
            "Sigc.C20.deref_enters_invokeFun", "Sigc.C20.callS_enters_invokeFun",
            "Sigc.C20.nest_inner_none_iff_empty", "Sigc.C20.invokeFun_nest"]
TRUSTED = rt.TRUSTED_RT + ["g++ 12.2 and clang++ 14 with libstdc++ 12 as the supported compiler matrix; valgrind 3.19; "
                           "clang's -fsanitize=function as oracle for calls through a mismatched function type"]
ASSUMPTIONS = rt.ASSUMPTIONS_RT + [
    "PARTIAL: what an optimiser does with undefined behaviour cannot be a theorem; the theorems show the modelled erased call "
    "path meets its preconditions, the matrix shows these compilers agree with the model on the sampled programs"]
# (the all-history invariant 'call = true -> fn.isSome' is proved for every reachable state: Sigc.C20.callHasFn_reachable;
#  what stays partial is the optimiser part, see ASSUMPTIONS)
PARTIAL = []
KNOWN_IDS = ()
EXPLANATION = "partial: precondition theorems for the type-erased call path + configuration matrix differential"
N_QUICK = 300
N_THOROUGH = 3000

CONFIGS_ALL = [(cxx, opt, dep) for cxx in ("g++", "clang++-14") for opt in ("-O0", "-O2", "-O3") for dep in (False, True)]
CONFIGS_QUICK = [("g++", "-O0", False), ("g++", "-O3", True), ("clang++-14", "-O0", True), ("clang++-14", "-O2", False)]


def profiles(thorough):
    return [Profile(len=(10, 60), body_prob=0.3),
            Profile(len=(10, 40), body_prob=0.3, flavours=["A", "TA", "I"], specs={"fn": 6, "trk": 2},
                    w={"emit": 14, "connfn": 12, "blockC": 6})]


def cfg_name(c):
    return "%s%s%s" % (c[0].replace("+", "p"), c[1], "_nodep" if c[2] else "")


def build_cfg(c, extra_flags=(), tag=None):
    cxx, opt, nodep = c
    flags = ["-std=c++17", opt, "-w"] + list(extra_flags)
    return common.build_harness(runtime.HARNESS_SRC, tag or ("m_" + cfg_name(c)), cxx=cxx, flags=flags,
                                disable_deprecated=nodep)


def run_batch(exe, progs, env=None, wrapper=()):
    """all programs through one process per chunk (no sanitizer: crashes are not expected; a chunk that
    crashes is re-run program by program)"""
    n = len(progs)
    chunk = max(1, (n + common.NCPU - 1) // common.NCPU)
    e = dict(os.environ)
    if env:
        e.update(env)

    def one(idx):
        text = "".join("=== %d\n%s" % (i, progs[i] if progs[i].endswith("\n") else progs[i] + "\n") for i in idx)
        try:
            r = subprocess.run(list(wrapper) + [exe], input=text, stdout=subprocess.PIPE, stderr=subprocess.PIPE, text=True,
                               timeout=900, env=e, errors="replace")
            rc, out, err = r.returncode, r.stdout, r.stderr
            err = "\n".join(l for l in err.split("\n") if not l.startswith("#harness-stats"))   # (evidence line, not a report)
        except subprocess.TimeoutExpired:
            rc, out, err = 124, "", "timeout"
        res = {}
        cur = None
        for line in out.split("\n"):
            if line.startswith("=== "):
                cur = idx[int(line[4:])]
                res[cur] = []
            elif line:
                if cur is None and len(idx) == 1:
                    cur = idx[0]
                    res[cur] = []
                if cur is not None:
                    res[cur].append(line)
        res = {k: "\n".join(v) + "\n" for k, v in res.items()}
        return idx, rc, res, err

    out = {}
    errs = {}
    with ThreadPoolExecutor(max_workers=common.NCPU) as ex:
        for idx, rc, res, err in ex.map(one, [list(range(a, min(n, a + chunk))) for a in range(0, n, chunk)]):
            if rc != 0 or len(res) != len(idx):
                for i in idx:   # isolate
                    _, rc1, r1, e1 = one([i])
                    out[i] = r1.get(i, "")
                    if rc1 != 0:
                        errs[i] = "rc=%d %s" % (rc1, e1[-800:])
            else:
                out.update(res)
                if err.strip():
                    for i in idx:
                        errs.setdefault(i, err[-800:])
    return out, errs


def all_corpus():
    res = []
    for f in sorted(glob.glob(os.path.join(common.VERIF, "corpus", "C*", "*.prog"))):
        res.append((os.path.relpath(f, common.VERIF), open(f).read()))
    return res


def correspondence(ctx):
    t0 = time.time()
    configs = CONFIGS_ALL if ctx.thorough else CONFIGS_QUICK
    # build all configurations in parallel (each build is itself 6 parallel compiles)
    exes = {}
    infra = []
    with ThreadPoolExecutor(max_workers=4 if not ctx.thorough else 6) as ex:
        for c, (exe, log) in zip(configs, ex.map(build_cfg, configs)):
            if exe:
                exes[c] = exe
            else:
                infra.append("configuration %s does not build: %s" % (cfg_name(c), log[-1200:]))
    corpus = all_corpus()
    progs = [p for _, p in corpus]
    names = [n for n, _ in corpus]
    n = N_THOROUGH if ctx.thorough else N_QUICK
    profs = profiles(ctx.thorough)
    for k in range(n):
        progs.append(runtime.gen_program(ctx.rng, profs[k % len(profs)]))
        names.append("gen%d" % k)
    model = runtime.run_model(progs)
    mon, dis = [], []
    per_cfg = {}
    traces = {}
    for c, exe in exes.items():
        out, errs = run_batch(exe, progs)
        traces[c] = out
        bad = 0
        for i in range(len(progs)):
            d = runtime.first_diff(out.get(i, ""), model[i])
            if d is not None or i in errs:
                bad += 1
        per_cfg[cfg_name(c)] = {"programs": len(progs), "differ_from_model": bad}
    # classify: configurations disagreeing with each other = violation of C20 as stated;
    # all configurations equal but different from the model = model/implementation disagreement
    for i in range(len(progs)):
        outs = {cfg_name(c): "\n".join(runtime.canon(traces[c].get(i, ""))) for c in exes}
        distinct = set(outs.values())
        m = "\n".join(runtime.canon(model[i]))
        if len(distinct) > 1:
            groups = {}
            for k, v in outs.items():
                groups.setdefault(hashlib.sha1(v.encode()).hexdigest()[:8], []).append(k)
            mon.append({"input": progs[i], "name": names[i], "impl": "\n".join("%s: %s" % (g, ks) for g, ks in groups.items()),
                        "model": model[i][-2000:],
                        "detail": "build configurations produce different traces for the same program: %s" % groups})
        elif distinct and distinct.pop() != m:
            c0 = next(iter(exes))
            d = runtime.first_diff(traces[c0].get(i, ""), model[i])
            dis.append({"input": progs[i], "name": names[i], "impl": traces[c0].get(i, "")[-2000:], "model": model[i][-2000:],
                        "detail": "all configurations agree but differ from the model at %s" % (d,)})
    extra = {}
    # the sanitized reference configuration (g++ -O1, ASan + UBSan incl. the vptr check; the build every runtime check
    # uses): undefined behaviour that happens to produce the same trace in all plain configurations is still reported
    san_exe, san_log = runtime.build_main_harness()
    if not san_exe:
        infra.append("sanitized configuration does not build: " + san_log[-800:])
    else:
        sres = runtime.compare(san_exe, progs, with_spec=False)
        bad = 0
        for i, r in enumerate(sres):
            if r["verdict"]:
                bad += 1
                mon.append({"input": progs[i], "name": names[i], "impl": r["impl"][-1500:], "model": model[i][-1500:],
                            "detail": "the sanitized build (g++ -O1 -fsanitize=address,undefined) reports %s: %s"
                                      % (r["verdict"], (r.get("stderr") or "")[-600:])})
            elif r["diff"] is not None:
                bad += 1
                dis.append({"input": progs[i], "name": names[i], "impl": r["impl"][-2000:], "model": model[i][-2000:],
                            "detail": "sanitized configuration differs from the model at %s" % (r["diff"],)})
        per_cfg["gpp-O1_asan_ubsan"] = {"programs": len(progs), "differ_from_model": bad}
    if ctx.thorough:
        # clang UBSan with the function sanitizer on the erased call path
        exe, log = build_cfg(("clang++-14", "-O1", False), extra_flags=["-g", "-fsanitize=undefined,function",
                                                                        "-fno-sanitize-recover=all"], tag="m_ubsanfn")
        if exe:
            out, errs = run_batch(exe, progs[:600], env={"UBSAN_OPTIONS": "print_stacktrace=1:halt_on_error=1"})
            extra["ubsan_function_programs"] = min(600, len(progs))
            for i, e in errs.items():
                mon.append({"input": progs[i], "name": names[i], "impl": out.get(i, "")[-1500:], "model": "",
                            "detail": "clang -fsanitize=undefined,function reports: " + e[-600:]})
        else:
            infra.append("ubsan/function configuration does not build: " + log[-800:])
        # valgrind memcheck (uninitialised reads) on a sample, g++ -O2
        c = ("g++", "-O2", False)
        # (own build without the harness's malloc-based operator new/delete: valgrind replaces operator new itself and
        #  would report the harness's free()-based operator delete as a mismatched free)
        vg_exe, vg_log = build_cfg(c, extra_flags=("-g", "-DHARNESS_NO_NEW_OVERRIDE"), tag="m_valgrind")
        if not vg_exe:
            infra.append("valgrind configuration does not build: " + vg_log[-800:])
        else:
            sample = list(range(0, min(len(progs), 120)))
            env = dict(os.environ)

            def vg(i):
                r = subprocess.run(["valgrind", "-q", "--error-exitcode=77", "--track-origins=no", vg_exe],
                                   input=progs[i], stdout=subprocess.PIPE, stderr=subprocess.PIPE, text=True, timeout=600,
                                   errors="replace")
                return i, r.returncode, r.stderr

            with ThreadPoolExecutor(max_workers=common.NCPU) as ex:
                for i, rc, err in ex.map(vg, sample):
                    if rc == 77:
                        mon.append({"input": progs[i], "name": names[i], "impl": "", "model": "",
                                    "detail": "valgrind memcheck: " + err[-800:]})
            extra["valgrind_programs"] = len(sample)
    distinct_nt = set()
    c0 = next(iter(exes), None)
    if c0:
        for i in range(len(progs)):
            if rt.nontrivial(traces[c0].get(i, "")):
                distinct_nt.add(hashlib.sha1(progs[i].encode()).hexdigest())
    out = {
        "evaluations": len(progs) * (len(exes) + (1 if san_exe else 0)),
        "distinct_nontrivial": len(distinct_nt),
        "rule": "every runtime corpus program + programs drawn from the default and the accumulator profile, run in every "
                "build configuration of this tier; non-trivial = >= 1 functor ran and >= 8 operations had an effect; distinct "
                "by program text (counted once, not per configuration)",
        "samples": [{"name": names[i], "program": progs[i][:800]} for i in (0, len(corpus))][:2],
        "traces_validated_against_impl": len(progs) * (len(exes) + (1 if san_exe else 0)),
        "distribution": {"configurations": per_cfg, "corpus_programs": len(corpus), **extra},
        "disagreements": dis[:10],
        "monitor_failures": mon[:10],
        "infra_errors": infra,
        "correspondence_wall_s": round(time.time() - t0, 1),
    }
    return out


def replay(ctx, path):
    import json
    j = json.load(open(path))
    case = j.get("case") or {}
    prog = case.get("input")
    if not prog:
        print(json.dumps(j, indent=1)[:3000])
        return 0
    outs = {}
    for c in CONFIGS_QUICK:
        exe, log = build_cfg(c)
        if exe:
            o, e = run_batch(exe, [prog])
            outs[cfg_name(c)] = o.get(0, "")
    model = runtime.run_model([prog])[0]
    bad = False
    for k, v in outs.items():
        d = runtime.first_diff(v, model)
        print(k, "differs from model at" if d else "equals model", d or "")
        bad = bad or d is not None
    if bad:
        print("VIOLATION property=C20 replay=%s" % path)
    return 1 if bad else 0
