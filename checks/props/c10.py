"""C10 — adaptors transform arguments and results exactly as documented.

Proof: lean/Sigc/Props/C10.lean (callImpl follows the call operators, callSpec is the documentation).
Correspondence: generated translation units of adaptor instantiations over recording targets, three
routes; the Lean driver's `callImpl` result vs the real library; monitor = the documented transformation
computed here in Python directly (harness/adapt_gen.py: ExprC10.spec).

Two families beyond plain values:
  * result identity — targets returning `T&` / `const T&` to their own pool object; the observation says whether the
    adaptor's result is a reference (`std::is_lvalue_reference<decltype(e(args...))>`) and to which pool object it
    refers (address comparison).  Direct calls and nested adaptors; `slot<T&(...)>::operator()` and
    `signal<T&(...)>::emit` do not compile in the current code (`return T_return();`), so on the slot/signal routes
    the declared return type is the value type and the model converts.
    `bind_return(f, std::ref(x))` / `std::cref(x)` returns `x` itself, through the separate nullary overload
    `operator()()` (direct call, or below hide / compose / … called without arguments) and through the variadic one.
    The getters' results of `compose` reach the setter as the very objects (setter targets with `const T&` parameters
    record which pool object each parameter is).
  * move-sensitive arguments — `av::MStr` (a moved-from MStr prints as `m:<moved>`), passed as temporaries,
    `std::move(x)`, lvalues, through `slot<R(MStr)>` / `slot<R(MStr&&)>`; every target must receive the emitted value,
    in particular both getters of `compose(s, g1, g2)` whatever their order of evaluation (records are compared per
    target).  A getter declared `MStr&&` does not compile on the current code (compose2 passes lvalues), so getters
    take `MStr` / `const MStr&` / by-value template parameters.
  * retype over reference parameters — the target of `retype()` declares its parameters `const T&` / `T&&` / `T` (QL
    targets: arithmetic types and the string-like class `av::Str` with a converting constructor) and is called with
    arguments of other types: every conversion creates a temporary inside the call expression, the target must receive the
    converted value (model: `castPar` = conversion, then binding; theorem retype_converts_then_binds).  A reference to a
    temporary that is already gone shows as a sanitizer report (heap-use-after-free for Str, null / stack reference for
    the arithmetic types) or as a wrong value — an implementation behaviour, hence a monitor failure.
  * partial catchers — two exception types (K1 = av::Thrown, K2 = av::Thrown2), catchers that rethrow the exception in
    flight and handle only the types they know (`av::PCatch`), next to the total ones: `exception_catch(f, c)` returns
    `c()` when `c` handles what `f` throws, otherwise the exception must reach the next enclosing `exception_catch` or
    the caller — direct call (nullary and variadic overload), slot, signal emission (theorem
    exception_catch_partial_propagates).  The harness installs a terminate handler that prints a marker and exits with
    code 24: "the exception did not reach the caller" is then reported as what it is.
  * bound values of class type and reference-typed bound arguments — `av::Json` (a number or an array, with a constructor
    `Json(std::initializer_list<Json>)` that accepts a Json itself, like std::vector<std::any> or a JSON value class) bound
    by value with bind / bind<I> / bind_return: the target must receive / the adaptor must return the bound number (an
    adaptor that list-initialises its stored copy wraps it into a one-element array with g++, which prints differently);
    bound types spelled explicitly as references, `bind<I, decltype(f), T&, ...>(f, x, ...)` and
    `bind<decltype(f), const T&, ...>(f, x, ...)`: a target taking `const T&...` must receive the pool objects x
    themselves (theorem bind_reference_identity; same value model as std::ref-bound results).
  * noexcept getters — the getter(s) of compose(s, g) / compose(s, g1, g2) are functor classes whose call operator is
    declared `noexcept` (`av::NxRec`; for the model an ordinary non-throwing target: noexcept has no effect on what a
    correct adaptor does) while the setter throws: the exception must reach the caller / the enclosing exception_catch /
    the caller of emit() exactly as with an ordinary getter; a conditional `noexcept(...)` on the adaptor's call operator
    that looks at the getter only turns it into std::terminate (reported through the terminate marker).
"""
import json
import os
import sys

sys.path.insert(0, os.path.join(os.path.dirname(os.path.dirname(os.path.dirname(os.path.abspath(__file__)))), "harness"))
import common  # noqa: E402
import adapt_gen as ag  # noqa: E402

PID = "C10"
LEVEL = "proof"
MODULE = "Sigc.Props.C10"
REQUIRED = ["Sigc.C10.tupleStart_eq_take", "Sigc.C10.tupleEnd_eq_drop", "Sigc.C10.bound_in_order",
            "Sigc.C10.bind_insert", "Sigc.C10.bind_append", "Sigc.C10.hide_erase", "Sigc.C10.hide_last",
            "Sigc.C10.impl_eq_spec", "Sigc.C10.result_clauses", "Sigc.C10.exception_catch_throw",
            "Sigc.C10.routes_agree", "Sigc.C10.resultMode_forwarding", "Sigc.C10.result_identity",
            "Sigc.C10.decay_witness", "Sigc.C10.bound_result_identity", "Sigc.C10.nullary_decay_witness",
            "Sigc.C10.compose_passes_result", "Sigc.C10.getter_decay_witness",
            "Sigc.C10.exception_catch_partial_propagates", "Sigc.C10.retype_converts_then_binds",
            "Sigc.C10.bind_reference_identity"]
TRUSTED = [
    "Lean 4.33.0 kernel (thorough: leanchecker); axioms per theorem as audited by #print axioms",
    "the hand-written model lean/Sigc/Adapt.lean (tupleStart/tupleCdr/tupleEnd/transformEach, argsImpl, callImpl, "
    "SlotM.call, emitValue/emitVoid): tied to sigc++/adaptors/*.h, tuple-utils/*.h, functors/slot.h, signal.h only "
    "by the sampled correspondence below",
    "callSpec / ExprC10.spec as the reading of the documentation (insert at I, append, erase I, drop last, "
    "static_cast per position, constant result, composition, catcher iff throw, identity; 'returns the result of the "
    "wrapped functor' read as: the result itself, a reference result is the reference to the same object; 'converts "
    "each argument to f's parameter type' read as: f receives the converted value also when the parameter is a "
    "reference bound to the converting temporary; a catcher that rethrows and does not handle the exception's type "
    "lets it proceed to the next catcher adaptor / the caller, as the documentation of exception_catch says)",
    "the table resultMode : ResSite -> declAuto | declared | decays of lean/Sigc/Adapt.lean (how each call operator — "
    "nullary overloads operator()() are rows of their own, and so is the hand-over of compose's getter results to the "
    "setter — hands a result on) and the overload selection `nullary` (no arguments and not spelled "
    ".template operator()<...> as slot_call::call_it does): tied to the code only by the sampled correspondence",
    "generator, C++ support header harness/adapt_support.h, g++ 12, libstdc++ (std::tuple, std::apply, std::invoke), "
    "ASan/UBSan",
]
ASSUMPTIONS = [
    "values are int/long/double of small magnitude (no overflow); double -> integer conversion truncates toward zero",
    "the order in which compose(setter, g1, g2) evaluates g1 and g2 is unspecified in C++: call records are compared "
    "per target, and generated getters of compose2 do not throw",
    "retype() is exercised over pointer_functor and slot (not over mem_functor); targets are free functions and "
    "functor classes with a non-template operator(); declared `const T&` / `T&&` / `T` parameters (QL targets) over "
    "int/long/double and av::Str (converted from arithmetic arguments only, never back)",
    "av::Json occurs only as a bound value of bind / bind_return and is received by parameters declared Json / "
    "const Json& (or by value in a variadic target); it is never converted; reference-typed bound arguments refer to pool "
    "objects of type int/long/double that outlive the adaptor",
    "exceptions are of two unrelated class types; catchers are total (never rethrow) or partial (rethrow, handle K1 "
    "and/or K2) and do not throw exceptions of their own; a partial catcher is only used as the catcher argument of "
    "exception_catch",
    "generated functors never destroy a trackable they are bound to (finding F6 is out of scope of C10)",
    "reference results are covered on the direct-call route and below nested adaptors; slot<T&(...)>::operator() and "
    "signal<T&(...)>::emit are rejected by the compiler (value-initialisation of a reference), slots/signals over a "
    "reference-returning functor are declared with the value type",
    "move-sensitive arguments (MStr): getters of compose(s, g1, g2) take MStr / const MStr& / by-value template "
    "parameters (a getter declared MStr&& does not compile: compose2 passes lvalues); value-returning signals are not "
    "declared with MStr&& (do not compile); MStr is never converted from/to the arithmetic types; retype is not "
    "exercised with MStr",
    "the slot / emit route is modelled minimally (non-empty unblocked slot, no re-entrancy): C01/C03/C13 cover the rest",
]
PARTIAL = []
EXPLANATION = ("theorems quantify over all arities, positions, numbers of bound values and nesting depths; "
               "the sampled correspondence bounds: target arity 0-6, 1-3 bound values, nesting depth <= 3")

CORPUS = os.path.join(common.VERIF, "corpus", "C10")


def tup(x):
    return tuple(tup(y) for y in x) if isinstance(x, list) else x


def load_corpus():
    cs = []
    if os.path.isdir(CORPUS):
        for f in sorted(os.listdir(CORPUS)):
            if f.endswith(".json"):
                d = json.load(open(os.path.join(CORPUS, f)))
                for c in d["cases"]:
                    c = {k: tup(v) for k, v in c.items()}
                    c["origin"] = "corpus:" + f
                    cs.append(c)
    return cs


def single_chains():
    """every adaptor alone: every legal position for every target arity, 1-3 bound values"""
    out = []
    for m in range(0, 7):               # target arity
        for k in range(1, 4):           # bound values
            if k <= m:
                n = m - k
                out.append((n, [("B", None, k)]))
                for pos in range(0, n + 1):
                    out.append((n, [("Bi", pos, k)]))
    for m in range(0, 6):
        n = m + 1
        out.append((n, [("H",)]))
        for pos in range(0, n):
            out.append((n, [("Hi", pos)]))
    for kind in ("RT", "RR", "HR", "BR", "C1", "C2", "EC", "TO"):
        for n in range(0, 5):
            out.append((n, [kind]))
    return out


def pair_chains(rng, arities):
    out = []
    for a in ag.KINDS10:
        for b in ag.KINDS10:
            for n in arities:
                out.append((n, [a, b]))
    return out


REF_KINDS = ["Bi", "B", "Hi", "H", "RT", "TO", "EC", "C1", "C2", "RR", "BR"]  # RR: retype_return<T&> or <T>;
#                                                                               BR: bind_return(f, std::ref/cref(x))
# call operators with a separate non-template nullary overload (adaptor_functor, bind_return, exception_catch), entered
# directly and from hide / compose / bind / track_object / exception_catch called without arguments
NULLARY = [(0, ["BR"]), (1, ["H", "BR"]), (1, [("Hi", 0), "BR"]), (2, ["H", "H", "BR"]), (0, ["C1", "BR"]), (0, ["C2", "BR"]),
           (0, ["EC", "BR"]), (0, ["TO", "BR"]), (0, ["BR", "BR"]), (0, ["RR", "BR"]), (0, ["EC"]), (1, ["H", "EC"]),
           (0, ["C1"]), (0, ["TO"]), (0, ["BR", "EC"]), (1, ["H", "TO", "BR"])]
M_KINDS = ["Bi", "B", "Hi", "H", "SL", "C2", "C2", "C2", "C1", "RR", "HR", "BR", "TO", "EC"]
M_DIRECTED = [["C2"], ["TO", "C2"], ["EC", "C2"], ["HR", "C2"], ["BR", "C2"], ["RR", "C2"], ["C1", "C2"], ["C2", "C2"],
              ["C2", "TO"], ["C2", "Hi"], ["Bi", "C2"], ["Hi", "C2"], ["SL", "C2"], ["TO", "EC", "C2"], ["C1"], ["EC"], ["TO"],
              ["Bi"], ["H"], ["SL"]]


def family_cases(ctx, g):
    """result identity (reference-returning targets) and move-sensitive arguments (MStr)"""
    rng = ctx.rng
    out = []
    # --- reference results: every forwarding adaptor alone, pairs, triples; direct route mostly
    reps = 3 if ctx.thorough else 1
    for _ in range(reps):
        for k in REF_KINDS:
            out.append(("ref", g.case(rng.below(4), [k], "D", force_ref=True)))
    for _ in range(reps):
        for n, ch in NULLARY:
            out.append(("ref", g.case(n, list(ch), "D", force_ref=True)))
    # the getters of compose() return references, the setter takes const T&: it must receive the getters' objects
    g.getter_ref = True
    for _ in range(reps):
        for n, ch in [(1, ["C1"]), (2, ["C2"]), (0, ["C2"]), (0, ["C1", "BR"]), (0, ["C2", "BR"]), (2, ["C2", "TO"]), (1, ["C2", "EC"]),
                      (2, ["C2", "H"]), (1, ["C2", "Bi"]), (2, ["C1", "C2"]), (1, ["TO", "C2"]), (2, ["H", "C2"]), (1, ["C2", "RT"]),
                      (1, ["EC", "C2"])]:
            out.append(("getter-ref", g.case(n, list(ch), "DDS"[len(out) % 3])))
    for i in range(60 if ctx.thorough else 6):
        ch = [rng.choice(["C2", "C2", "C1"])] + [rng.choice(REF_KINDS) for _ in range(rng.below(2))]
        out.append(("getter-ref", g.case(rng.below(4), ch, "DSG"[i % 3])))
    g.getter_ref = False
    npairs = 150 if ctx.thorough else 16
    for i in range(npairs):
        ch = [rng.choice(REF_KINDS) for _ in range(2 + (i % 2))]
        if i % 3 == 0:
            ch[rng.below(len(ch))] = "EC"
        out.append(("ref", g.case(rng.below(4), ch, "D", force_ref=True)))
    for i in range(40 if ctx.thorough else 6):
        out.append(("ref", g.case(rng.below(4), [rng.choice(REF_KINDS) for _ in range(1 + i % 2)], "SG"[i % 2],
                                  conv_ret=rng.chance(0.3), force_ref=True)))
    # --- MStr
    reps = 4 if ctx.thorough else 1
    for _ in range(reps):
        for i, ch in enumerate(M_DIRECTED):
            route = "DDS"[i % 3]
            out.append(("mstr", g.mcase(1 + rng.below(3), ch, route,
                                        passes=None if rng.chance(0.3) else [rng.choice("tx") for _ in range(3)])))
    for i in range(300 if ctx.thorough else 20):
        ch = [rng.choice(M_KINDS) for _ in range(1 + rng.below(3))]
        out.append(("mstr", g.mcase(1 + rng.below(3), ch, "DDSSG"[i % 5])))
    # --- retype over const T& / T&& parameters with arguments that need converting temporaries
    reps = 4 if ctx.thorough else 1
    for _ in range(reps):
        for i, w in enumerate(RETYPE_WRAPS):
            out.append(("retype-ref", g.retype_case(1 + rng.below(3), "DSG"[i % 3], w)))
    # --- partial catchers, two exception types
    for _ in range(reps):
        for i, (shape, w) in enumerate(CATCH_SHAPES):
            out.append(("catch", g.catch_case(rng.below(3) if i % 4 else 0, "DSGD"[i % 4], shape, 1 + (i + rng.below(2)) % 2, w)))
    # --- bound values that are not plain numbers: av::Json (a class with a self-wrapping initializer_list constructor) bound
    # by value to bind / bind_return; bound arguments whose types are spelled as references (bind<I, F, T&>, bind<F, const T&>)
    for _ in range(reps):
        for i, (shape, w) in enumerate(BOUND_SHAPES):
            out.append(("bound-" + shape, g.bound_case(rng.below(3), "DSG"[i % 3], shape, w)))
    # --- getters with a noexcept call operator under compose(), setter throws: the exception leaves the composite
    for _ in range(reps):
        for i, (shape, two, w) in enumerate(NX_SHAPES):
            out.append(("noexcept-getter", g.nx_case(rng.below(3) if i % 4 else 0, "DSG"[i % 3], shape, 1 + (i + rng.below(2)) % 2, two, w)))
    cases = []
    for fam, c in out:
        c["origin"] = "gen:" + fam
        cases.append(c)
    return cases


NX_SHAPES = [("plain", False, None), ("plain", False, None), ("plain", False, None), ("catch", False, None),
             ("catch-partial", False, None), ("catch-unhandled", False, None), ("plain", True, None), ("catch", True, None),
             ("plain", False, "TO"), ("catch", False, "H"), ("plain", False, "SL"), ("plain", False, "B")]
BOUND_SHAPES = [("json", None), ("json", None), ("json", None), ("json", "TO"), ("json", "H"), ("json", "SL"),
                ("json-ret", None), ("json-ret", "SL"), ("json-ret", "H"), ("json-ret", None),
                ("ref", None), ("ref", None), ("ref", None), ("ref", "TO"), ("ref", "H"), ("ref", "SL"), ("ref", "ECT")]
RETYPE_WRAPS = [None, None, None, "TO", "SL", "ECT", "H", "B", "HR", "RR", "SL", None]
CATCH_SHAPES = [("unhandled", None), ("unhandled", None), ("unhandled", None), ("handled", None), ("nested-total", None),
                ("nested-partial", None), ("nested-none", None), ("total", None), ("unhandled", "TO"), ("unhandled", "H"),
                ("nested-total", "B"), ("unhandled", "SL"), ("handled", "RR"), ("unhandled", "HR"), ("nested-partial", "SL"),
                ("unhandled", None)]


def build_cases(ctx):
    rng = ctx.rng
    g = ag.GenC10(rng)
    plan = []
    singles = single_chains()
    if ctx.thorough:
        for n, ch in singles:
            for route in "DSG":
                plan.append((n, ch, route, False))
        for n, ch in pair_chains(rng, [1, 2, 3]):
            for route in "DSG":
                plan.append((n, ch, route, False))
        # pairs of positional adaptors: every combination of positions for arity 2
        for a in ("Bi", "Hi"):
            for b in ("Bi", "Hi"):
                for p1 in range(0, 3):
                    for p2 in range(0, 4):
                        plan.append((2, [(a, p1, 2) if a == "Bi" else (a, p1), (b, p2, 1) if b == "Bi" else (b, p2)],
                                     rng.choice("DSG"), False))
        for _ in range(1500):
            d = 3
            plan.append((rng.below(5), [rng.choice(ag.KINDS10) for _ in range(d)], rng.choice("DSG"), rng.chance(0.3)))
    else:
        routes = "DSG"
        sel = rng.shuffle(singles)[:70]
        for i, (n, ch) in enumerate(sel):
            plan.append((n, ch, routes[i % 3], False))
        pairs = pair_chains(rng, [2])
        for i, (n, ch) in enumerate(rng.shuffle(pairs)[:110]):
            plan.append((rng.choice([1, 2, 3]), ch, routes[i % 3], False))
        for i in range(60):
            plan.append((rng.below(5), [rng.choice(ag.KINDS10) for _ in range(3)], routes[i % 3], rng.chance(0.4)))
    cases = []
    for n, ch, route, cr in plan:
        c = g.case(n, ch, route, conv_ret=cr)
        c["origin"] = "gen"
        cases.append(c)
    return cases + family_cases(ctx, g)


def edge_stream(ctx, cases):
    """small malformed stream for the model only: wrong arity (the model must say ill-typed exactly when the arity
    discipline says so) and unparsable lines"""
    rng = ctx.rng
    out = []
    for c in rng.shuffle(cases)[:25]:
        d = dict(c)
        if rng.chance(0.5) and len(d["args"]) > 0:
            d["args"] = d["args"][:-1]
            d["sig"] = d["sig"][:-1]
        else:
            d["args"] = d["args"] + (("i", 99),)
            d["sig"] = d["sig"] + ("i",)
        d["route"] = "D"
        out.append((ag.c10_line(d), "wt=1" if ag.c10_arity_ok(d["expr"], len(d["args"])) else "wt=0"))
    out.append(("c10 D i 0 0 L 0 0", "parse-error"))
    out.append(("c10 X i 0 0 L 0 0 i 0", "parse-error"))
    out.append(("c10 D i 0 0 B 0 1 i:1 L 0 0 i 1 i extra", "parse-error"))
    out.append(("c10 D i 0 0 H 0 L 0 0 i 0", "wt=0"))
    out.append(("c10 D i 0 1 i:3 RT 1 cl L 0 0 i 1 l", "wt=0"))          # retype's T_type must be the target's declared type
    out.append(("c10 D i 0 1 i:3 RT 1 cl QL 0 0 i 1 cl", "wt=1"))
    out.append(("c10 D i 0 1 i:3 RT 1 cl PL 0 0 i 1 l", "wt=1"))
    out.append(("c10 D i 0 1 i:3 EC L 0 3 i 1 i PC 1 i 1", "parse-error"))   # unknown exception type
    return out


def evaluate(cases, per_tu):
    """returns (results, infra) ; results[i] = dict(impl, model, expected) for case i"""
    infra = []
    b = ag.Builder("c10")
    err = b.prepare()
    if err:
        return None, [err], b
    obs, nocompile = ag.build_and_run(b, len(cases), lambda i, j: ag.c10_body(cases[i], j), per_tu)
    lines = [ag.c10_line(c) for c in cases]
    try:
        model = ag.model_run(lines)
    except RuntimeError as ex:
        return None, infra + [str(ex)], b
    res = []
    for i in range(len(cases)):
        impl = obs[i] if i not in nocompile else "nocompile:" + nocompile[i]
        res.append({"impl": impl, "model": model[i], "expected": ag.c10_expected(cases[i]), "line": lines[i]})
    b.prune()
    return res, infra, b


norm_impl = ag.c10_norm_impl
norm_model = ag.c10_norm_model


def classify(cases, results):
    dis, mon = [], []
    for c, r in zip(cases, results):
        impl = norm_impl(r["impl"])
        wt, model, spec = norm_model(r["model"])
        base = {"input": r["line"], "impl": impl, "model": model, "expected": r["expected"], "case": c,
                "cxx": ag.ExprC10.cxx(c["expr"])}
        if impl is None:
            continue
        if impl.startswith("nocompile:"):
            d = dict(base)
            d["detail"] = ("a documented-valid adaptor expression is rejected by the compiler: %s  [%s]"
                           % (base["cxx"], impl[10:400]))
            mon.append(d)
            continue
        if impl != r["expected"]:
            d = dict(base)
            what = "the real adaptor did not do what is documented"
            if impl.startswith("crash:") and "TERMINATE" in impl:
                what = ("std::terminate() was called: the exception did not reach the caller (nor the next enclosing "
                        "exception_catch)")
            elif impl.startswith("crash:"):
                what = "the call died (sanitizer report / crash)"
            d["detail"] = ("%s: observed [%s], documented [%s] for %s "
                           "called via route %s with (%s)" % (what, impl, r["expected"], base["cxx"], c["route"],
                                                            ag.c10_call_text(c)))
            mon.append(d)
        if impl != model or wt != "1" or spec != "same":
            d = dict(base)
            d["detail"] = "model and implementation differ: model [%s wt=%s spec=%s], implementation [%s]" % (
                model, wt, spec, impl)
            dis.append(d)
    mon.sort(key=lambda d: 1 if d["impl"].startswith("nocompile") else 0)   # run-time witnesses first
    return dis, mon


def shrink_candidates(c):
    """smaller cases: remove one adaptor layer at the top, folding its effect into the arguments"""
    e = c["expr"]
    out = []
    k = e[0]

    ps = list(c.get("pass") or ["t" if a[0] == "m" else "-" for a in c["args"]])
    sg = list(c["sig"])

    def with_(expr, args, pss=None, sig=None):
        d = dict(c)
        d["expr"] = expr
        d["args"] = tuple(args)
        d["sig"] = tuple(sig if sig is not None else sg)
        d["pass"] = tuple(pss if pss is not None else ps)
        d["ret"] = ag.base_ty(ag.ExprC10.natural(expr))
        return d

    args = list(c["args"])
    if k == "B":
        loc = len(args) if e[1] == -1 else e[1]
        out.append(with_(e[3], args[:loc] + [ag.decay(b) for b in e[2]] + args[loc:], ps[:loc] + ["-"] * len(e[2]) + ps[loc:],
                         sg[:loc] + [ag.decay(b)[0] for b in e[2]] + sg[loc:]))
    elif k == "H":
        idx = len(args) - 1 if e[1] == -1 else e[1]
        out.append(with_(e[2], [a for j, a in enumerate(args) if j != idx], [a for j, a in enumerate(ps) if j != idx],
                         [a for j, a in enumerate(sg) if j != idx]))
    elif k in ("RR", "RRR", "BR", "TO"):
        out.append(with_(e[2], args))
    elif k == "HR":
        out.append(with_(e[1], args))
    elif k == "SL":
        out.append(with_(e[3], args))
    elif k in ("C1", "C2"):
        out.append(with_(e[2], args))
    elif k == "EC":
        out.append(with_(e[1], args))
    if c["route"] != "D":
        d = dict(c)
        d["route"] = "D"
        out.append(d)
    return out


def shrink(case_dict, kind):
    """kind: 'mon' or 'dis'; greedy, at most 6 rounds of one small TU each"""
    cur = case_dict
    for _ in range(6):
        cands = shrink_candidates(cur["case"])
        if not cands:
            break
        res, infra, _b = evaluate(cands, 1)
        if res is None:
            break
        nxt = None
        for c, r in zip(cands, res):
            if r["impl"] is None:
                continue
            d, m = classify([c], [r])
            hit = m if kind == "mon" else d
            if hit:
                nxt = hit[0]
                break
        if nxt is None:
            break
        cur = nxt
    cur["shrunk_from"] = case_dict["input"] if cur is not case_dict else None
    return cur


def correspondence(ctx):
    corpus = load_corpus()
    gen = build_cases(ctx)
    cases = corpus + gen
    per_tu = 24 if ctx.thorough else max(8, (len(cases) + common.NCPU - 1) // common.NCPU)
    results, infra, b = evaluate(cases, per_tu)
    if results is None:
        return {"evaluations": 0, "distinct_nontrivial": 0, "rule": "", "samples": [], "disagreements": [],
                "monitor_failures": [], "infra_errors": infra}
    dis, mon = classify(cases, results)
    # edge stream (model only)
    edge = edge_stream(ctx, gen)
    try:
        eout = ag.model_run([l for l, _ in edge])
        for (l, want), got in zip(edge, eout):
            if not got.startswith(want):
                dis.append({"input": l, "impl": "arity discipline says " + want, "model": got, "case": None,
                            "detail": "edge stream: model's wellTyped/parse verdict differs from the arity discipline"})
    except RuntimeError as ex:
        infra.append(str(ex))
    if mon:
        mon = [shrink(mon[0], "mon")] + mon[1:]
    elif dis and dis[0].get("case"):
        dis = [shrink(dis[0], "dis")] + dis[1:]
    # distribution
    dist = {"routes": {}, "arity": {}, "depth": {}, "adaptor_kinds": {}, "ordered_pairs_seen": 0, "throwing": 0,
            "return_conversion": 0, "corpus_cases": len(corpus), "edge_stream": len(edge),
            "reference_result_observed": 0, "reference_returning_target_cases": 0,
            "setter_received_getters_object": 0, "mstr_argument_cases": 0,
            "mstr_rvalue_into_compose2": 0, "mstr_pass": {},
            "retype_reference_parameter_cases": 0, "retype_converting_temporaries": {"const T&": 0, "T&&": 0, "Str": 0},
            "thrown_types": {"K1": 0, "K2": 0}, "partial_catcher_cases": 0, "exception_reached_caller": 0,
            "partial_catcher_passed_exception_on": 0,
            "noexcept_getter_cases": 0, "json_bound_value_cases": 0, "json_returned_by_bind_return": 0, "reference_typed_bound_argument_cases": 0,
            "bound_object_received_by_target": 0}
    pairs = set()
    distinct = set()
    for c, r in zip(cases, results):
        dist["routes"][c["route"]] = dist["routes"].get(c["route"], 0) + 1
        a = str(len(c["args"]))
        dist["arity"][a] = dist["arity"].get(a, 0) + 1
        ks = ag.ExprC10.kinds(c["expr"])
        dist["depth"][str(len(ks))] = dist["depth"].get(str(len(ks)), 0) + 1
        for k in ks:
            dist["adaptor_kinds"][k] = dist["adaptor_kinds"].get(k, 0) + 1
        for x, y in zip(ks, ks[1:]):
            pairs.add((x, y))
        if "threw" in (r["impl"] or ""):
            dist["throwing"] += 1
        toks = r["line"].split(" ")
        rt = ag.c10_retype_temporaries(c)
        if rt:
            dist["retype_reference_parameter_cases"] += 1
            for k_, v_ in rt.items():
                dist["retype_converting_temporaries"][k_] += v_
        for k_, code in (("K1", "1"), ("K2", "2")):
            dist["thrown_types"][k_] += sum(1 for j, t in enumerate(toks[:-2]) if t in ("L", "V", "PL", "QL", "RL")
                                            and toks[j + 2] == code)
        if any(t.startswith("j:") for t in toks):
            dist["json_bound_value_cases"] += 1
            if "res=j:" in (r["impl"] or ""):
                dist["json_returned_by_bind_return"] += 1
        if ag.c10_has_ref_bound(c["expr"]):
            dist["reference_typed_bound_argument_cases"] += 1
            if "cref:" in (r["impl"] or "").split(" res=")[0]:
                dist["bound_object_received_by_target"] += 1
        if ag.c10_has_nx(c["expr"]):
            dist["noexcept_getter_cases"] += 1
        if "PC" in toks:
            dist["partial_catcher_cases"] += 1
            if (r["impl"] or "").endswith(("res=threw", "res=threw2")):
                dist["partial_catcher_passed_exception_on"] += 1
        if (r["impl"] or "").endswith(("res=threw", "res=threw2")):
            dist["exception_reached_caller"] += 1
        if "res=ref:" in (r["impl"] or "") or "res=cref:" in (r["impl"] or ""):
            dist["reference_result_observed"] += 1
        if " RL " in r["line"]:
            dist["reference_returning_target_cases"] += 1
        if "(cref:" in (r["impl"] or "") or ",cref:" in (r["impl"] or ""):
            dist["setter_received_getters_object"] += 1
        if any(a[0] == "m" for a in c["args"]):
            dist["mstr_argument_cases"] += 1
            for p_ in (c.get("pass") or ()):
                if p_ != "-":
                    dist["mstr_pass"][p_] = dist["mstr_pass"].get(p_, 0) + 1
            if "C2" in ks and (("mr" in c["sig"]) or (c["route"] == "D" and any(p_ in "tx" for p_ in (c.get("pass") or "t")))):
                dist["mstr_rvalue_into_compose2"] += 1
        if c["ret"] != ag.base_ty(ag.ExprC10.natural(c["expr"])) and c["route"] != "D":
            dist["return_conversion"] += 1
        if ks and r["impl"] and not r["impl"].startswith(("crash", "nocompile")):
            distinct.add(r["line"])
    dist["ordered_pairs_seen"] = len(pairs)
    dist["translation_units"] = {"compiled": b.compiled, "cached": b.cached}
    evaluated = sum(1 for r in results if r["impl"] is not None)
    return {
        "evaluations": evaluated + len(edge),
        "distinct_nontrivial": len(distinct),
        "rule": "distinct driver lines whose expression contains at least one adaptor and that were executed by the "
                "real library (compiled instantiation ran to completion)",
        "samples": [r["line"] + "  =>  " + (r["impl"] or "") for r in results[len(corpus):len(corpus) + 6]],
        "traces_validated_against_impl": evaluated,
        "distribution": dist,
        "disagreements": dis,
        "monitor_failures": mon,
        "infra_errors": infra,
    }


def search(ctx, disagreements):
    """a model/implementation difference without a monitor failure: look at smaller variants of the diverging cases"""
    found = []
    for d in disagreements[:3]:
        if not d.get("case"):
            continue
        cands = shrink_candidates(d["case"])
        seen = 0
        while cands and seen < 12:
            res, infra, _b = evaluate(cands, 4)
            if res is None:
                break
            _dis, mon = classify(cands, res)
            if mon:
                found.append(mon[0])
                break
            seen += len(cands)
            cands = [x for c in cands for x in shrink_candidates(c)][:6]
    return found


def replay(ctx, path):
    d = json.load(open(path))
    c = d.get("case", d)
    case = c.get("case")
    if case is None:
        print("replay file has no structured case: ", json.dumps(d)[:400])
        return 2
    case = {k: tup(v) for k, v in case.items()}
    res, infra, _b = evaluate([case], 1)
    if res is None or res[0]["impl"] is None:
        print("cannot rebuild the case:", infra)
        return 2
    r = res[0]
    print("input     :", r["line"])
    print("C++       :", ag.ExprC10.cxx(case["expr"]), " route", case["route"],
          " sig (%s)" % ", ".join(ag.CXX_TY[t] for t in case["sig"]), " args (%s)" % ag.c10_call_text(case))
    print("documented:", r["expected"])
    print("observed  :", norm_impl(r["impl"]))
    print("model     :", norm_model(r["model"])[1])
    dis, mon = classify([case], [r])
    if mon:
        print("RESULT: the implementation violates C10 on this input")
        return 1
    if dis:
        print("RESULT: model and implementation differ on this input (no documented behaviour violated)")
        return 1
    print("RESULT: passes")
    return 0
