"""C11 — references stay references and values stay intact along the call path.

Proof: lean/Sigc/Props/C11.lean (object model `callO`: every hop of every call operator follows the declared
parameter kind in the table `paramKind` and the way of passing the parameters on in the table `passKind` —
`std::forward` everywhere except compose2_functor, which hands its *named* parameters to both getters).
Correspondence: generated signals over an `Obj` class with address identity and copy/move accounting; the Lean
driver's prediction (received objects, values seen, final values, copy/move counters, result) vs the real library;
monitor = the property statement as an interpreter (harness/adapt_gen.py: IdealC11): adaptors route the caller's
objects and never copy, only declared by-value parameters copy.

Result references: a reference handed out as a *result* stays that reference too — bind_return(f, std::ref(x)) /
std::cref(x) returns x itself (address equality, hence zero copies), through its nullary overload `operator()()` and
through the variadic one, called directly and below hide / bind / compose / track_object / exception_catch; and the
reference a getter of compose() returns reaches the setter as that very object (no by-value local in between).  These
probes are direct calls (a slot<T&(...)> cannot be called in the current code); they reuse the value/result model of
the Adapt component (`c10` driver lines, theorem C11.bound_result_reference = C10.bound_result_identity).

Member functors: the unbound `sigc::mem_fun(&Base::m)` called as `f(obj, args...)` is a target kind of its own — `Base` is
the harness' `av::Obj`, `av::DObj` a class derived from it.  The object argument has static type `Obj`, `DObj` or
`const DObj`, and reaches the member functor by a direct call, through a slot, through a signal emission (several slots:
what one method writes the next one and the emitter must see), through adaptor chains and as a `std::ref` / `std::cref`
object bound with `bind<0>`.  Observed: `this` of the method (it must be the passed object, parameter 0 of the record),
values, copy/move counters (zero copies).  Bound types spelled explicitly as references (`bind<I, decltype(f), Obj&>(f, o)`,
`bind<decltype(f), const Obj&>(f, o)`, bound kinds "R" / "C") hold the object like std::ref / std::cref do (`Bound.byRef` /
`Bound.byCRef` in the model): identity, modification through the reference, zero copies.  Model: `OExpr.mleaf`, whose object parameter follows the rows
`memFunctorExact` / `memFunctorDerived` of `paramKind` (by reference); theorems mem_functor_object_identity and
mem_functor_byvalue_witness.
"""
import json
import os
import sys

sys.path.insert(0, os.path.join(os.path.dirname(os.path.dirname(os.path.dirname(os.path.abspath(__file__)))), "harness"))
import common
from props import rt  # noqa: E402
import adapt_gen as ag  # noqa: E402

PID = "C11"
LEVEL = "proof"
MODULE = "Sigc.Props.C11"
REQUIRED = ["Sigc.C11.ref_identity", "Sigc.C11.bound_ref_identity", "Sigc.C11.value_intact",
            "Sigc.C11.result_not_defaulted", "Sigc.C11.f5_witness", "Sigc.C11.rref_witness",
            "Sigc.C11.rref_forwarders", "Sigc.C11.paramKind_forwarding", "Sigc.C11.passKind_rows",
            "Sigc.C11.compose2_getters_intact", "Sigc.C11.compose2_forward_witness",
            "Sigc.C11.bound_result_reference", "Sigc.C11.getter_result_reaches_setter",
            "Sigc.C11.mem_functor_object_identity", "Sigc.C11.mem_functor_byvalue_witness"]
TRUSTED = [
    "Lean 4.33.0 kernel (thorough: leanchecker); axioms per theorem as audited by #print axioms",
    "the hand-written object model lean/Sigc/Adapt.lean part 4 (Heap, enterArg, tupleElem, takeParam, castTo, "
    "leafInit/leafBody, ONode.args, callO, emitVoidO/emitValueO) and its tables paramKind : AdaptorKind -> "
    "byValue | forwardingRef and passKind : AdaptorKind -> forward | named (the rows memFunctorExact / memFunctorDerived: "
    "how mem_functor::operator() takes its object argument, per static type of that argument): tied to "
    "sigc++/adaptors/*.h, type_traits.h, functors/slot.h, functors/mem_fun.h, signal.h, "
    "bound_argument.h, limit_reference.h only by the sampled correspondence below; the flag `derived` of a member-functor "
    "target (static type of the object argument that reaches it) is computed by the generator",
    "IdealC11 (Python) as the reading of the property statement",
    "generator, harness/adapt_support.h (Obj: identity by address, copy/move constructors that count and record "
    "their source), g++ 12, libstdc++ (std::tuple, std::apply, std::invoke, std::reference_wrapper), ASan/UBSan",
]
ASSUMPTIONS = [
    "objects passed at different positions / bound to one functor are distinct (no aliasing between positions)",
    "targets under compose(s, g1, g2) take their parameters by value or const reference (the evaluation order of "
    "g1 and g2 is unspecified in C++); call records are compared per target",
    "the further copies a by-value std::tuple element undergoes inside tuple_start/tuple_end/tuple_cat are not "
    "counted individually (they are copies of a copy, never of a caller's object)",
    "targets do not throw in C11 programs (exception routes are C10/C08)",
    "T&& signal parameters: value-returning signals with a T&& parameter do not compile (emit passes lvalues) and "
    "bind/hide directly inside a slot cannot keep a T&& element (std::tuple<T&&> from a const tuple); both are "
    "compile-time rejections, outside C11",
    "generated functors never destroy a trackable they are bound to (finding F6 is out of scope of C11)",
    "member functors: unbound mem_fun(&Obj::meth) of non-volatile (const or non-const) member functions, the object "
    "argument an lvalue of static type Obj / DObj (single, non-virtual inheritance); no T&& positions in those cases; "
    "retype() is not applied to an unbound member functor (it has no T_type for the object)",
]
PARTIAL = [
    "T&& parameters (finding F8): C11.ref_identity is proved for positions declared T, T&, const T& through every "
    "adaptor chain, and for T&& through chains of forwarding call operators (C11.rref_forwarders). It is FALSE for a "
    "T&& parameter that passes bind/hide below a forwarding adaptor, e.g. signal<void(Obj&&,int)> + "
    "hide_return(hide(f)): there T_arg is deduced as Obj, std::tuple<Obj> move-constructs from the emitter's object, "
    "the target receives a copy and later slots see the moved-from object (C11.rref_witness; corpus/C11 replays it "
    "and the run prints KNOWN-FINDING while the library behaves so)",
]
EXPLANATION = ("theorems quantify over all adaptor expressions, argument lists and slot lists; the sampled "
               "correspondence bounds: 1-4 signal parameters, 1-3 slots, adaptor chains of depth 0-3 (+compose2 branch), "
               "1-3 bound values of kinds value/std::ref/std::cref")
F8 = ("F8 rvalue-reference signal parameter is moved-from and copied by bind/hide nested under a forwarding adaptor "
      "(e.g. signal<void(Obj&&,int)>, hide_return(hide(f))): target receives a copy, later slots see the moved-from object")

CORPUS = os.path.join(common.VERIF, "corpus", "C11")


def tup(x):
    return tuple(tup(y) for y in x) if isinstance(x, list) else x


def load_corpus():
    cs = []
    if os.path.isdir(CORPUS):
        for f in sorted(os.listdir(CORPUS)):
            if f.endswith(".json"):
                d = json.load(open(os.path.join(CORPUS, f)))
                for c in d["cases"]:
                    c = {k: tup(v) for k, v in c.items()}
                    c["origin"] = "corpus:" + f
                    cs.append(c)
    return cs


def combos():
    out = []
    for k in "vlcr":
        for p in range(4):
            for ns in (1, 2, 3):
                for depth in range(4):
                    out.append((k, p, ns, depth))
    return out


def build_cases(ctx):
    rng = ctx.rng
    g = ag.GenC11(rng)
    cases = []

    def one(k, p, ns, depth, outer=None):
        n = p + 1 + (rng.below(4 - p) if p < 3 else 0)
        sig = "".join(k if i == p else rng.choice("vlcr" if rng.chance(0.25) else "vlc") for i in range(n))
        chains = []
        for s in range(ns):
            d = depth if s == 0 else rng.below(4)
            ch = [rng.choice(ag.KINDS11) for _ in range(d)]
            if outer is not None and s == 0 and d > 0:
                ch[rng.below(d)] = outer
            chains.append(ch)
        c = g.case(sig, ns, chains)
        c["origin"] = "gen"
        return c

    if ctx.thorough:
        for (k, p, ns, depth) in combos():
            if depth == 0:
                cases.append(one(k, p, ns, 0))
            else:
                for outer in ag.KINDS11:
                    cases.append(one(k, p, ns, depth, outer))
    else:
        for (k, p, ns, depth) in combos():
            cases.append(one(k, p, ns, depth))
        for _ in range(50):
            cases.append(one(rng.choice("vlcr"), rng.below(4), 1 + rng.below(3), 1 + rng.below(3), rng.choice(ag.KINDS11)))
        # rvalue-reference parameters into compose(s, g1, g2): both getters must get the named parameter (copies)
        for _ in range(8):
            cases.append(one("r", rng.below(3), 1 + rng.below(2), 1 + rng.below(3), "C2"))
    return cases


MEM_KINDS = ["Bi", "B", "Hi", "H", "SL", "C2", "RR", "HR", "BR", "EC", "TO", "C1"]


def build_mem_cases(ctx):
    """unbound member functors sigc::mem_fun(&av::Obj::meth) as targets; object argument of static type Obj / DObj /
    const DObj; routes direct / slot / signal; bound with bind<0>(..., std::ref / std::cref / a copy)"""
    rng = ctx.rng
    g = ag.GenC11(rng)
    cases = []
    reps = 6 if ctx.thorough else 1

    def add(c, fam):
        c["origin"] = "gen:mem:" + fam
        cases.append(c)

    for _ in range(reps):
        i = 0
        for cls0 in "db":
            for objk in "lcv":
                for route in "DSG":
                    if route == "D" and objk == "v":
                        continue
                    i += 1
                    extra = rng.below(3)
                    sig = objk + "".join(rng.choice("vlc" if route != "D" else "lc") for _ in range(extra))
                    cls = cls0 + "".join(rng.choice("bd") for _ in range(extra))
                    ns = (1 + rng.below(2)) if route == "G" else 1
                    chains = []
                    for sl in range(ns):
                        d = [0, 1, 1, 2][(i + sl) % 4]
                        chains.append([rng.choice(MEM_KINDS) for _ in range(d)])
                    add(g.mem_case(sig, cls, route, chains), "arg")
        # the object bound with bind<0>(mem_fun(&Obj::meth), std::ref(o) / std::cref(o) / o)
        for cls0 in "db":
            for bk in "rcv":
                for route in "DSG":
                    i += 1
                    extra = rng.below(3)
                    sig = "".join(rng.choice("vlc" if route != "D" else "lc") for _ in range(extra))
                    cls = "".join(rng.choice("bd") for _ in range(extra))
                    outer = [rng.choice(["H", "HR", "TO", "EC", "RR", "SL"])] if i % 3 == 0 else []
                    ch = outer + [("Bi", 0, (bk, cls0))] + ([rng.choice(["TO", "EC", "HR"])] if i % 4 == 0 else [])
                    chains = [ch] + ([[rng.choice(MEM_KINDS)]] if route == "G" and extra and rng.chance(0.5) else [])
                    add(g.mem_case(sig, cls, route, chains), "bound")
    return cases


REFBOUND = [([("R", None)], 0, [], []), ([("C", None)], None, [], []), ([("R", None), ("C", None)], 0, [], []),
            ([("v", None), ("R", None)], None, ["H"], []), ([("C", None)], 1, [], ["TO"]), ([("R", None)], None, ["HR"], []),
            ([("R", None), ("r", None)], 0, [], ["EC"]), ([("C", None), ("v", None)], 0, ["SL"], []), ([("R", None)], 0, [], [])]


def build_refbound_cases(ctx):
    """bound types spelled explicitly as references: bind<I, decltype(f), Obj&, ...>(f, o, ...) and
    bind<decltype(f), const Obj&, ...>(f, o, ...) hold the object o itself (like std::ref / std::cref): the target
    receives o, what it writes through an Obj& reaches o, o is never copied"""
    rng = ctx.rng
    g = ag.GenC11(rng)
    cases = []
    for _ in range(5 if ctx.thorough else 1):
        for i, (specs, pos, outer, inner) in enumerate(REFBOUND):
            n = rng.below(3)
            sig = "".join(rng.choice("vlc") for _ in range(n + (1 if "H" in outer else 0)))
            kind = ("Bi", pos, list(specs)) if pos is not None else ("B", None, list(specs))
            chains = [list(outer) + [kind] + list(inner)]
            if i % 3 == 2:
                chains.append([("Bi", 0, list(specs))] if rng.chance(0.5) else [rng.choice(ag.KINDS11)])
            c = g.case(sig, len(chains), chains)
            c["origin"] = "gen:refbound"
            cases.append(c)
    return cases


# bind_return with a std::ref / std::cref bound value (always the first "BR" of the chain; force_ref makes it so), entered
# through the nullary overload (no arguments reach it) or the variadic one, directly and nested
PROBES = [(0, ["BR"]), (1, ["BR"]), (3, ["BR"]), (1, ["H", "BR"]), (1, [("Hi", 0), "BR"]), (2, ["H", "BR"]), (2, ["H", "H", "BR"]),
          (0, ["C1", "BR"]), (1, ["C1", "BR"]), (0, ["C2", "BR"]), (2, ["C2", "BR"]), (0, ["TO", "BR"]), (0, ["EC", "BR"]),
          (1, ["Bi", "BR"]), (0, ["B", "BR"]), (0, ["RR", "BR"]), (1, ["H", "TO", "BR"]), (1, ["H", "C1", "BR"])]
# compose(s, g1, g2) / compose(s, g): getters returning references, setter with const T& parameters that record which
# object they are (GenC10.getter_ref)
GETTER_PROBES = [(1, ["C2"]), (2, ["C2"]), (0, ["C2"]), (1, ["C1"]), (0, ["C2", "BR"]), (2, ["H", "C2"]), (1, ["TO", "C2"]),
                 (2, ["C2", "TO"]), (1, ["EC", "C2"])]
PROBE_CORPUS = os.path.join(CORPUS, "result_refs.probes")


def build_probes(ctx):
    g = ag.GenC10(ctx.rng)
    cases = []
    if os.path.exists(PROBE_CORPUS):
        for c in json.load(open(PROBE_CORPUS))["cases"]:
            c = {k: tup(v) for k, v in c.items()}
            c["origin"] = "corpus:result_refs.probes"
            cases.append(c)
    for _ in range(4 if ctx.thorough else 1):
        for n, ch in PROBES:
            c = g.case(n, list(ch), "D", force_ref=True)
            c["origin"] = "gen:result-probe"
            cases.append(c)
        g.getter_ref = True
        for n, ch in GETTER_PROBES:
            c = g.case(n, list(ch), "D")
            c["origin"] = "gen:getter-probe"
            cases.append(c)
        g.getter_ref = False
    return cases


def evaluate_probes(cases, per_tu):
    b = ag.Builder("c11")
    err = b.prepare()
    if err:
        return None, [err]
    obs, nocompile = ag.build_and_run(b, len(cases), lambda i, j: ag.c10_body(cases[i], j), per_tu)
    lines = [ag.c10_line(c) for c in cases]
    try:
        model = ag.model_run(lines)
    except RuntimeError as ex:
        return None, [str(ex)]
    res = []
    for i in range(len(cases)):
        impl = obs[i] if i not in nocompile else "nocompile:" + nocompile[i]
        res.append({"impl": impl, "model": model[i], "line": lines[i], "expected": ag.c10_expected(cases[i])})
    return res, []


def classify_probes(cases, results):
    dis, mon = [], []
    for c, r in zip(cases, results):
        impl = ag.c10_norm_impl(r["impl"])
        if impl is None:
            continue
        wt, model, spec = ag.c10_norm_model(r["model"])
        cxx = ag.ExprC10.cxx(c["expr"])
        base = {"input": r["line"], "impl": impl, "model": model, "expected": r["expected"], "case": c, "cxx": cxx}
        if impl.startswith("nocompile:"):
            d = dict(base)
            d["detail"] = "a documented-valid adaptor expression is rejected by the compiler: %s [%s]" % (cxx, impl[10:400])
            mon.append(d)
            continue
        if impl != r["expected"]:
            d = dict(base)
            d["detail"] = ("a reference result did not stay the reference (or the call did something else than documented): "
                           "observed [%s], property [%s] for %s called directly with (%s)"
                           % (impl, r["expected"], cxx, ag.c10_call_text(c)))
            mon.append(d)
        if impl != model or wt != "1" or spec != "same":
            d = dict(base)
            d["detail"] = "model and implementation differ: model [%s wt=%s spec=%s], implementation [%s]" % (
                model, wt, spec, impl)
            dis.append(d)
    return dis, mon


def edge_stream(ctx):
    """model-only edge lines: unparsable input, no slots, empty signature"""
    return [("c11 V 1 l 1 5 0 0", "calls= objs=e0:5:c0:m0 res=void"),
            ("c11 I 1 v 1 5 0 0", "calls= objs=e0:5:c0:m0 res=0"),
            ("c11 V 0 0 0 1 L 0 1 0 0", "calls=0() objs= res=void"),
            ("c11 V 1 l 2 5 6 0 0", "parse-error"),
            ("c11 Q 1 l 1 5 0 0", "parse-error"),
            ("c11 V 1 l 1 5 0 1 L 0 1 0 1 z", "parse-error")]


def evaluate(cases, per_tu, probes=None):
    """signal cases (+ optionally the direct-call result probes, compiled and run in the same parallel batch; their
    results are then returned as a fourth component)"""
    infra = []
    b = ag.Builder("c11")
    err = b.prepare()
    if err:
        return (None, [err], b) if probes is None else (None, [err], b, None)
    n1 = len(cases)
    allc = list(cases) + list(probes or [])
    obs, nocompile = ag.build_and_run(
        b, len(allc), lambda i, j: ag.c11_body(allc[i], j) if i < n1 else ag.c10_body(allc[i], j), per_tu)
    lines = [ag.c11_line(c) for c in cases] + [ag.c10_line(c) for c in allc[n1:]]
    try:
        model = ag.model_run(lines)
    except RuntimeError as ex:
        return (None, infra + [str(ex)], b) if probes is None else (None, infra + [str(ex)], b, None)
    res = []
    for i in range(len(allc)):
        impl = obs[i] if i not in nocompile else "nocompile:" + nocompile[i]
        r = {"impl": impl, "model": model[i], "line": lines[i]}
        if i >= n1:
            r["expected"] = ag.c10_expected(allc[i])
        res.append(r)
    b.prune()
    if probes is None:
        return res, infra, b
    return res[:n1], infra, b, res[n1:]


def cxx_of(c):
    sigt = "%s(%s)" % ("void" if c["kind"] == "V" else "int",
                       ", ".join(ag.pk_cxx(k, q) for k, q in zip(c["sig"], ag.c11_cls(c))))
    route = c.get("route", "G")
    if route == "D":
        return "direct call %s(%s)" % (ag.ExprC11.cxx(c["slots"][0]),
                                       ", ".join("%s lvalue" % ag.pk_cxx(k, q).replace("&", "")
                                                 for k, q in zip(c["sig"], ag.c11_cls(c))))
    if route == "S":
        return "slot<%s> holding %s, called" % (sigt, ag.ExprC11.cxx(c["slots"][0]))
    return "signal<%s> with slots [%s]" % (sigt, " ; ".join(ag.ExprC11.cxx(s) for s in c["slots"]))


def classify(cases, results):
    dis, mon = [], []
    for c, r in zip(cases, results):
        impl = r["impl"]
        if impl is None:
            continue
        base = {"input": r["line"], "impl": impl, "model": r["model"], "case": c, "cxx": cxx_of(c)}
        known = F8 if ag.c11_f7(c) else None
        if impl.startswith("nocompile:"):
            d = dict(base)
            d["detail"] = "a well-typed signal/adaptor combination is rejected by the compiler: %s [%s]" % (
                base["cxx"], impl[10:400])
            mon.append(d)
            continue
        if impl.startswith("crash:"):
            d = dict(base)
            d["detail"] = "the emission died: %s in %s" % (impl[6:], base["cxx"])
            mon.append(d)
            continue
        o = ag.parse_obs11(impl)
        why = ag.c11_monitor(c, o)
        if why:
            d = dict(base)
            d["expected"] = ag.c11_ideal_obs(c)
            d["detail"] = "%s — %s" % (why, base["cxx"])
            if known:
                d["known"] = known
            mon.append(d)
        m = ag.parse_obs11(r["model"])
        if m != o:
            d = dict(base)
            d["detail"] = "model and implementation differ: model [%s], implementation [%s]" % (r["model"], impl)
            dis.append(d)
    mon.sort(key=lambda d: 1 if d["impl"].startswith("nocompile") else 0)
    return dis, mon


def shrink_candidates(c):
    out = []
    slots = list(c["slots"])
    if len(slots) > 1:
        for i in range(len(slots)):
            d = dict(c)
            d["slots"] = tuple(slots[:i] + slots[i + 1:])
            out.append(d)
    # peel one forwarding / arity-preserving adaptor off a slot
    for i, s in enumerate(slots):
        k = s[0]
        inner = None
        if k in ("RR", "HR", "EC", "TO"):
            inner = s[1]
        elif k in ("BR", "C1"):
            inner = s[2]
        elif k == "C2":
            inner = s[2]
        if inner is not None and ((ag.ExprC11.natural(inner) == "void") == (c["kind"] == "V")):
            d = dict(c)
            d["slots"] = tuple(slots[:i] + [inner] + slots[i + 1:])
            out.append(d)
    return out


def shrink(case_dict, kind):
    cur = case_dict
    for _ in range(6):
        cands = shrink_candidates(cur["case"])
        if not cands:
            break
        res, infra, _b = evaluate(cands, 1)
        if res is None:
            break
        nxt = None
        for c, r in zip(cands, res):
            if r["impl"] is None:
                continue
            d, m = classify([c], [r])
            hit = [x for x in (m if kind == "mon" else d) if bool(x.get("known")) == bool(cur.get("known"))
                   and x["impl"].startswith("nocompile") == cur["impl"].startswith("nocompile")]
            if hit:
                nxt = hit[0]
                break
        if nxt is None:
            break
        cur = nxt
    if cur is not case_dict:
        cur["shrunk_from"] = case_dict["input"]
    return cur


class _RT:
    """the runtime-family part of this check: value-returning signals with blocked / re-entrantly disconnected slots"""
    PID = "C11"
    N_QUICK = 150
    N_THOROUGH = 3000
    KNOWN_IDS = ()

    @staticmethod
    def profiles(thorough):
        from runtime import Profile
        ops = ["newG", "connfn", "emit", "tryemit", "disc", "blockC", "blockG", "clear", "size?", "newT", "delT", "connected?"]
        return [Profile(allow_only=ops, nT=2, nG=3, nC=8, flavours=["I", "TI", "I", "A"], specs={"fn": 6, "trk": 2, "fwd": 2},
                        body_prob=0.35, body_len=(1, 2), len=(12, 40),
                        w={"connfn": 14, "emit": 14, "blockC": 8, "disc": 4, "delT": 2, "blockG": 1},
                        bw={k: 0 for k in ["connfn", "conn", "clear", "delG", "cpG", "asgG", "masgG", "emit", "tryemit", "callS", "delS",
                                             "discS", "delC", "delK", "discK", "asgS", "mvS", "setS", "mkS", "newT", "cpC", "relK", "mvK",
                                             "newK", "mvG", "blockS", "blockG", "notifyT", "throw", "emptyS?"]})]


_RTMOD = _RT


def correspondence(ctx):
    corpus = load_corpus()
    gen = build_cases(ctx) + build_mem_cases(ctx) + build_refbound_cases(ctx)
    cases = corpus + gen
    probes = build_probes(ctx)       # result references: direct-call probes, built together with the signal cases
    per_tu = 20 if ctx.thorough else max(8, (len(cases) + len(probes) + common.NCPU - 1) // common.NCPU)
    results, infra, b, pres = evaluate(cases, per_tu, probes)
    if results is None:
        return {"evaluations": 0, "distinct_nontrivial": 0, "rule": "", "samples": [], "disagreements": [],
                "monitor_failures": [], "infra_errors": infra}
    dis, mon = classify(cases, results)
    edge = edge_stream(ctx)
    try:
        eout = ag.model_run([l for l, _ in edge])
        for (l, want), got in zip(edge, eout):
            if got != want:
                dis.append({"input": l, "impl": want, "model": got, "case": None,
                            "detail": "edge stream: the model's answer on an edge input changed"})
    except RuntimeError as ex:
        infra.append(str(ex))
    unknown = [m for m in mon if not m.get("known")]
    if unknown:
        first = shrink(unknown[0], "mon")
        mon = [first] + [m for m in mon if m is not unknown[0]]
    elif dis and dis[0].get("case"):
        dis = [shrink(dis[0], "dis")] + dis[1:]
    dist = {"signal_kind": {}, "declared_kind_by_position": {}, "slots": {}, "chain_depth": {}, "adaptor_kinds": {},
            "bound_kinds": {}, "target_param_kinds": {}, "corpus_cases": len(corpus), "edge_stream": len(edge),
            "known_finding_region_cases": 0,
            "member_functor": {"cases": 0, "object_static_type": {"Obj": 0, "DObj": 0}, "const_method": 0,
                               "route": {"D": 0, "S": 0, "G": 0}, "object_bound_with": {"std::ref": 0, "std::cref": 0, "copy": 0},
                               "below_adaptor": 0}}
    distinct = set()
    for c, r in zip(cases, results):
        dist["signal_kind"][c["kind"]] = dist["signal_kind"].get(c["kind"], 0) + 1
        for p, k in enumerate(c["sig"]):
            key = "%s@%d" % (k, p)
            dist["declared_kind_by_position"][key] = dist["declared_kind_by_position"].get(key, 0) + 1
        ns = str(len(c["slots"]))
        dist["slots"][ns] = dist["slots"].get(ns, 0) + 1
        nontrivial = False
        for s in c["slots"]:
            ks = ag.ExprC11.kinds(s)
            dist["chain_depth"][str(len(ks))] = dist["chain_depth"].get(str(len(ks)), 0) + 1
            for k in ks:
                dist["adaptor_kinds"][k] = dist["adaptor_kinds"].get(k, 0) + 1
            for bd in ag.ExprC11.bounds(s):
                dist["bound_kinds"][bd[0]] = dist["bound_kinds"].get(bd[0], 0) + 1
            nontrivial = nontrivial or bool(ks)
        if ag.c11_f7(c):
            dist["known_finding_region_cases"] += 1
        mts = [t for s_ in c["slots"] for t in ag.c11_member_targets(s_)]
        if mts:
            mf = dist["member_functor"]
            mf["cases"] += 1
            mf["route"][c.get("route", "G")] += 1
            for (m, below, bk) in mts:
                mf["object_static_type"]["DObj" if m[2] else "Obj"] += 1
                mf["const_method"] += 1 if m[3] else 0
                mf["below_adaptor"] += 1 if below else 0
                if bk:
                    mf["object_bound_with"][{"r": "std::ref", "c": "std::cref", "v": "copy"}[bk]] += 1
            if r["impl"] and not r["impl"].startswith(("crash", "nocompile")):
                distinct.add(r["line"])
        if (nontrivial or len(c["slots"]) > 1) and r["impl"] and not r["impl"].startswith(("crash", "nocompile")):
            distinct.add(r["line"])
    dist["translation_units"] = {"compiled": b.compiled, "cached": b.cached}
    evaluated = sum(1 for r in results if r["impl"] is not None)
    # the result clause of C11 ("a result is returned without being replaced by a default unless no slot ran") lives in
    # the emit loops of the runtime core: run the value-result profile of the operation language too (engine props/rt.py)
    # result references (bind_return with std::ref / std::cref, compose getters): direct-call probes
    dist["result_reference_probes"] = {"cases": len(probes), "nullary_overload_entered": 0, "reference_observed": 0}
    if pres is not None:
        pdis, pmon = classify_probes(probes, pres)
        dis = dis + pdis
        mon = mon + pmon
        for c, r in zip(probes, pres):
            if r["impl"] and ("res=ref:" in r["impl"] or "res=cref:" in r["impl"] or "cref:" in r["impl"]):
                dist["result_reference_probes"]["reference_observed"] += 1
                distinct.add(r["line"])
            if ag.c10_enters_nullary_bind_return(c["expr"], len(c["args"])):
                dist["result_reference_probes"]["nullary_overload_entered"] += 1
        evaluated += sum(1 for r in pres if r["impl"] is not None)
    rtres = rt.run(ctx, _RTMOD)
    dist["runtime_result_clause"] = {"programs": rtres.get("evaluations", 0), "distribution": rtres.get("distribution", {})}
    dis = dis + rtres.get("disagreements", [])
    mon = mon + rtres.get("monitor_failures", [])
    infra = infra + rtres.get("infra_errors", [])
    evaluated += rtres.get("evaluations", 0)
    return {
        "evaluations": evaluated + len(edge),
        "distinct_nontrivial": len(distinct),
        "rule": "distinct driver lines with at least one adaptor between signal and target or more than one slot, "
                "executed by the real library to completion",
        "samples": [r["line"] + "  =>  " + (r["impl"] or "") for r in results[len(corpus):len(corpus) + 6]],
        "traces_validated_against_impl": evaluated,
        "distribution": dist,
        "disagreements": dis,
        "monitor_failures": mon,
        "infra_errors": infra,
    }


def search(ctx, disagreements):
    found = []
    for d in disagreements[:3]:
        if not d.get("case") or "expr" in d["case"]:      # (result-reference probes are single direct calls already)
            continue
        cands = shrink_candidates(d["case"])
        if not cands:
            continue
        res, infra, _b = evaluate(cands[:8], 4)
        if res is None:
            break
        _dis, mon = classify(cands[:8], res)
        mon = [m for m in mon if not m.get("known")]
        if mon:
            found.append(mon[0])
    return found


def replay(ctx, path):
    d = json.load(open(path))
    c = d.get("case", d)
    case = c.get("case")
    if case is None:
        print("replay file has no structured case: ", json.dumps(d)[:400])
        return 2
    case = {k: tup(v) for k, v in case.items()}
    if "expr" in case:          # a result-reference probe (direct call)
        res, infra = evaluate_probes([case], 1)
        if res is None or res[0]["impl"] is None:
            print("cannot rebuild the case:", infra)
            return 2
        r = res[0]
        print("input    :", r["line"])
        print("C++      :", ag.ExprC10.cxx(case["expr"]), " called directly with (%s)" % ag.c10_call_text(case))
        print("property :", r["expected"])
        print("observed :", ag.c10_norm_impl(r["impl"]))
        print("model    :", ag.c10_norm_model(r["model"])[1])
        dis, mon = classify_probes([case], [r])
        if mon:
            print("RESULT: the implementation violates C11 on this input: " + mon[0]["detail"])
            return 1
        if dis:
            print("RESULT: model and implementation differ on this input (no clause of C11 violated)")
            return 1
        print("RESULT: passes")
        return 0
    res, infra, _b = evaluate([case], 1)
    if res is None or res[0]["impl"] is None:
        print("cannot rebuild the case:", infra)
        return 2
    r = res[0]
    print("input    :", r["line"])
    print("C++      :", cxx_of(case))
    print("property :", ag.c11_ideal_obs(case))
    print("observed :", r["impl"])
    print("model    :", r["model"])
    dis, mon = classify([case], [r])
    if mon:
        print("RESULT: the implementation violates C11 on this input: " + mon[0]["detail"]
              + ("  [known finding: %s]" % mon[0]["known"] if mon[0].get("known") else ""))
        return 1
    if dis:
        print("RESULT: model and implementation differ on this input (no clause of C11 violated)")
        return 1
    print("RESULT: passes")
    return 0
