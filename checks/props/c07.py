"""C07 — disconnected slots release their functor and memory; nothing leaks  (runtime family; engine: props/rt.py, see DESIGN.md §5 C07)"""
import os
import sys
sys.path.insert(0, os.path.dirname(os.path.dirname(os.path.abspath(__file__))))
from runtime import Profile
from props import rt

PID = "C07"
LEVEL = "proof"
MODULE = "Sigc.Props.C07"
EXTRA_MODULES = ("Sigc.Props.Refine", "Sigc.Props.Fuel", "Sigc.Props.SpecK", "Sigc.Props.SlotG", "Sigc.Props.SweepL",)   # refinement P ⊑ S', S' ≡ S on runs clear of the known findings
REQUIRED = ["Sigc.SweepL.quiescent_clean", "Sigc.SweepL.live_count_spec", "Sigc.SweepL.disc_released", "Sigc.SweepL.owner_gone_releases", "Sigc.SweepL.final_live_zero", "Sigc.SweepL.no_fuel_error", "Sigc.SlotG.wf_reachable", "Sigc.SlotG.no_dangling", "Sigc.SlotG.invalidated_holds_no_functor", "Sigc.SlotG.live_count_spec", "Sigc.Fuel.terminates", "Sigc.Fuel.runProgram_fuel_independent", "Sigc.Refine.refines", "Sigc.Refine.runProgram_refines", "Sigc.SpecK.model_refines_pure_spec"]
TRUSTED = rt.TRUSTED_RT
ASSUMPTIONS = rt.ASSUMPTIONS_RT + []
PARTIAL = []
KNOWN_IDS = ()
N_QUICK = 400
N_THOROUGH = 12000
EXPLANATION = ''

def profiles(thorough):
    p = Profile(nT=3, nS=4, nG=3, nC=8, nK=2, nF=6, specs={"fn": 4, "mem": 2, "trk": 2, "bref": 1, "nest": 2, "fwd": 1, "ownT": 2, "ownK": 2, "ownG": 2},
                body_prob=0.35, len=(15, 60 if not thorough else 150), empty_slot_connect=0.2,
                w={"live?": 12, "connfn": 10, "conn": 6, "disc": 6, "clear": 2, "delG": 3, "cpG": 3, "emit": 7, "mkS": 5, "cpS": 3,
                   "asgS": 3, "delS": 3, "discS": 3, "delT": 4},
                bw={"disc": 8, "clear": 2, "delT": 3, "delG": 2, "throw": 0})
    return [p]


def extra_programs(ctx):
    """state-restoring cycles repeated 2 and 40 times: the allocation delta after the 2nd cycle must not grow"""
    res = []
    cycles = [
        ["connfn C0 G0 fn:1", "emit G0 1", "disc C0"],
        ["connfn C0 G0 trk:1:T0", "connfn C1 G0 fn:2", "emit G0 2", "clear G0"],
        ["mkS S0 I mem:3:T0", "conn C0 G0 S0", "cpS S1 S0", "delS S1", "delS S0", "disc C0"],
        ["newT T1", "connfn C0 G0 bref:1:T1", "connfn C1 G0 fn:4", "emit G0 1", "delT T1", "disc C1"],
        ["cpG G1 G0", "connfn C0 G1 fn:1", "delG G1", "emit G0 3", "disc C0"],
        ["mkS0 S0 I", "conn C0 G0 S0", "connfn C1 G0 fn:5", "emit G0 1", "disc C0", "disc C1"],
        ["connfn C0 G0 fn:5", "connfn C1 G0 fn:6", "emit G0 1", "disc C1"],
        ["connfn C0 G0 fn:1", "newK K0 C0", "delK K0", "delC C0"],
        # scoped connections re-assigned while they manage the connection of an empty / a valid slot
        ["mkS0 S0 I", "conn C0 G0 S0", "newK K0 C0", "connfn C1 G0 fn:1", "asgKC K0 C1", "newK0 K1", "masgK K1 K0", "delK K1",
         "delK K0", "delS S0", "delC C0", "delC C1"],
        ["mkS0 S0 I", "connmv C0 G0 S0", "newK0 K0", "asgKC K0 C0", "asgKC K0 C0", "newC C2", "asgKC K0 C2", "delK K0", "delS S0",
         "delC C0", "delC C2"],
        # slot variables assigned over and over, connections made from temporaries
        ["mkS S0 I fn:2", "mkS S1 I trk:3:T0", "asgS S0 S1", "masgS S1 S0", "setS S0 fn:4", "connfn C0 G0 nest:S0", "delS S0", "delS S1",
         "disc C0"],
    ]
    for ci, cyc in enumerate(cycles):
        for reps in (2, 40):
            lines = ["body 5", "  disc C0", "end", "body 6", "  disc C1", "end", "newT T0", "newG G0 I"]
            for k in range(reps):
                lines += cyc
                if k == 1:
                    lines.append("mark")
            lines.append("allocs?")
            res.append(("cycle%d_x%d" % (ci, reps), "\n".join(lines) + "\n"))
    return res


def post_monitor(ctx, by_name):
    """'repeating a sequence of operations that returns to the same logical state does not grow memory':
    outstanding allocations after 40 repetitions must not exceed those after 2 (the first cycle may
    perform lazy allocations once)"""
    import re
    fails = []
    for nm, r in by_name.items():
        m = re.match(r"cycle(\d+)_x2$", nm)
        if not m:
            continue
        other = by_name.get("cycle%s_x40" % m.group(1))
        if other is None:
            continue
        d2 = re.search(r"allocs\? => delta=(-?\d+)", r["impl"])
        d40 = re.search(r"allocs\? => delta=(-?\d+)", other["impl"])
        if not d2 or not d40:
            continue
        if int(d40.group(1)) > int(d2.group(1)):
            fails.append({"input": other["input"], "name": "cycle%s_x40" % m.group(1), "impl": other["impl"][-2000:],
                          "model": "", "verdict": None,
                          "detail": "memory grows with repetition of a state-restoring cycle: outstanding allocations "
                                    "after 2 cycles +%s, after 40 cycles +%s" % (d2.group(1), d40.group(1))})
    return fails


def correspondence(ctx):
    # + slots held by value inside other slots' functors (nest:), invalidated at every level: functors must be released
    # + one slot list with exact destruction timing: owner functors x connected empty slots (docs/SWEEPL.md)
    return rt.add_sweepl_stage(ctx, rt.add_slotg_stage(ctx, rt.run(ctx, sys.modules[__name__]), 'C07'), 'C07')


def search(ctx, disagreements):
    return rt.search(ctx, sys.modules[__name__], disagreements)


def known(ctx):
    return rt.known(ctx, sys.modules[__name__])


def replay(ctx, path):
    return rt.replay(ctx, sys.modules[__name__], path)
