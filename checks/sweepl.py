"""sweepl — differential stage for ONE slot list with the exact destruction timing of functor-owned
scoped_connections (docs/SWEEPL.md).

Model side : `sigc_model sweepl` (lean/Sigc/SweepL.lean; theorems in lean/Sigc/Props/SweepL.lean).
Real side  : harness/sweepl_harness.cc over the library built from common.REPO (ASan+UBSan+LSan).
Both interpret the same program text and print the same trace; `stage(ctx, focus)` generates programs with a
profile for the property in focus ("C03", "C07"), runs both sides, compares the traces, evaluates a trace-only
monitor on the real side, shrinks whatever fails and returns a dict of the same shape as a property module's
`correspondence(ctx)`.

Nothing is kept under /tmp; every random choice comes from ctx.rng.
  python3 checks/sweepl.py <focus> [seed] [thorough]      |      python3 checks/sweepl.py --replay <file.prog>
  SWEEPL_NO_CORPUS=1 skips corpus/SweepL (generated stream only);  SWEEPL_JSON=<file> dumps the result dict.
"""
import collections
import os
import re
import subprocess
import sys
import time

sys.path.insert(0, os.path.dirname(os.path.abspath(__file__)))
import common  # noqa: E402

MODULE = "Sigc.Props.SweepL"
HARNESS_SRC = os.path.join(common.VERIF, "harness", "sweepl_harness.cc")
CORPUS = os.path.join(common.VERIF, "corpus", "SweepL")
SAN_ENV = {"ASAN_OPTIONS": "detect_leaks=1:abort_on_error=0:halt_on_error=1:exitcode=23:symbolize=0",
           "UBSAN_OPTIONS": "halt_on_error=1:print_stacktrace=0", "LSAN_OPTIONS": "exitcode=23"}
FOCI = ("C03", "C07")
RULE = ("a program is non-trivial when at least three operations are performed (not refused) and it contains a "
        "performed disc or clear, or an emission that invoked at least one functor")
REFUSALS = ("dead", "exists", "self", "notowner", "badop", "toodeep")

# --------------------------------------------------------------------------------------
# generator
# --------------------------------------------------------------------------------------


class Gen:
    """mostly-valid programs built from scenario templates; a light shadow (names, kinds, functor ids) steers the
    choices; it need not be exact — every operation is total on both sides"""

    def __init__(self, rng, focus):
        self.r = rng
        self.focus = focus
        self.bodies = collections.OrderedDict()   # fid -> [lines]
        self.top = []
        self.nk = 0
        self.nf = 0
        self.cells = collections.OrderedDict()    # name -> (kind, fid)
        self.tags = set()
        self.emitters = 0                         # functor ids whose body emits (kept small: the call tree is n^3)
        self.in_setup = False

    # -- helpers
    def newk(self):
        self.nk += 1
        return self.nk

    def newf(self):
        fs = sorted({f for _, f in self.cells.values() if f})
        if fs and self.r.chance(0.08):
            return self.r.choice(fs)              # a shared functor id: live? counts above 1
        self.nf += 1
        return self.nf

    def arg(self):
        return self.r.below(10)

    def body(self, f, *lines):
        self.bodies.setdefault(f, []).extend(lines)

    def fids(self):
        return sorted({f for _, f in self.cells.values() if f})

    def probes(self, names=None, fids=None, force=False):
        c07 = self.focus == "C07"
        if force or not c07 or self.r.chance(0.7):
            self.top.append("size?")
        for f in (self.fids() if fids is None else fids):
            if force or c07 or self.r.chance(0.6):
                self.top.append("live? %d" % f)
        for k in (list(self.cells) if names is None else names):
            if self.r.chance(0.3):
                self.top.append("connected? K%d" % k)

    def op(self, line, probe=True):
        """one top-level operation of a template, followed by the queries the monitor judges"""
        self.top.append(line)
        if probe and (not self.in_setup or self.r.chance(0.25)):
            self.probes()

    def cell(self, kind, f=None):
        k = self.newk()
        if kind != "empty" and f is None:
            f = self.newf()
        self.cells[k] = (kind, f if kind != "empty" else 0)
        return k

    def spec(self, k):
        kind, f = self.cells[k]
        return "empty" if kind == "empty" else "%s:%d" % (kind, f)

    def layout(self, order):
        """connect the cells so that their relative order in the list is `order` (conn appends the suffix in
        order, connf prepends the prefix in reverse; the two sequences are interleaved at random)"""
        n = len(order)
        p = 0 if self.r.chance(0.4) else self.r.below(n + 1)
        pre = [("connf", k) for k in reversed(order[:p])]
        suf = [("conn", k) for k in order[p:]]
        self.in_setup = True
        while pre or suf:
            if pre and (not suf or self.r.chance(0.5)):
                c, k = pre.pop(0)
            else:
                c, k = suf.pop(0)
            self.op("%s K%d %s" % (c, k, self.spec(k)))
        self.in_setup = False

    def insert_at(self, order, k, lo=0, hi=None):
        hi = len(order) if hi is None else hi
        order.insert(lo + self.r.below(hi - lo + 1), k)

    def owns(self, pairs):
        self.in_setup = True
        for a, b in pairs:
            self.op("own K%d K%d" % (a, b))
        self.in_setup = False
        self.probes()

    def inner_probes(self, f, names=()):
        """queries inside a body (not judged by the monitor, compared with the model)"""
        if self.r.chance(0.5):
            self.body(f, "size?")
        for k in names:
            if self.r.chance(0.4):
                self.body(f, "connected? K%d" % k)
        if self.r.chance(0.25) and self.fids():
            self.body(f, "live? %d" % self.r.choice(self.fids()))

    def fillers(self, order, p=0.3):
        while self.r.chance(p):
            self.insert_at(order, self.cell(self.r.weighted([("fn", 3), ("empty", 2), ("own", 1)])))

    # -- templates
    def t1(self):
        """victim V, owner X of V's connection, X disconnected DURING an emission, an empty slot"""
        self.tags.add("T1 owner disconnected in emission")
        V, X, E = self.cell("fn"), self.cell("own"), self.cell("empty")
        who = self.r.weighted([("self", 4), ("after", 3), ("before", 3), ("victim", 1)])
        D = self.cell("fn") if who in ("after", "before") else (X if who == "self" else V)
        if self.r.chance(0.75):
            order = [V, X, E]
            if who == "before":
                self.insert_at(order, D, 0, order.index(X))
            elif who == "after":
                self.insert_at(order, D, order.index(X) + 1, len(order))
            self.tags.add("T1 canonical order V<X<E")
        else:
            order = self.r.shuffle([V, X, E] + ([D] if D not in (V, X) else []))
        self.fillers(order)
        self.layout(order)
        pairs = [(X, V)]
        if self.r.chance(0.25):
            V2 = self.r.choice([k for k in self.cells if k != X])
            if V2 != V:
                pairs = self.r.shuffle(pairs + [(X, V2)])
        self.owns(pairs)
        fD = self.cells[D][1]
        self.body(fD, "disc K%d" % X)
        self.inner_probes(fD, [X, V])
        self.op("emit %d" % self.arg())
        if self.r.chance(0.5):
            self.op("emit %d" % self.arg())
        if self.r.chance(0.3):
            self.op(self.r.choice(["disc K%d" % D, "clear", "disc K%d" % V, "conn K%d empty" % self.newk()]))

    def t2(self):
        """no emission: V fn, X own{V}, Y own{X}, E empty; disc Y: the sweep erases X, whose destructor
        disconnects V which lies before the sweep position; the empty slot behind re-arms deferred_"""
        self.tags.add("T2 owner destroyed by a sweep without emission")
        V, X, Y, E = self.cell("fn"), self.cell("own"), self.cell("own"), self.cell("empty")
        if self.r.chance(0.75):
            order = [V, X, E]
            self.insert_at(order, Y)
        else:
            order = self.r.shuffle([V, X, Y, E])
        self.fillers(order, 0.2)
        self.layout(order)
        self.owns([(Y, X), (X, V)] if self.r.chance(0.5) else [(X, V), (Y, X)])
        if self.r.chance(0.75):
            self.op("disc K%d" % Y)
        else:
            D = self.r.choice([V, Y, X])
            fD = self.cells[D][1]
            self.body(fD, "disc K%d" % Y)
            self.inner_probes(fD, [Y, X, V])
            self.op("emit %d" % self.arg())
        if self.r.chance(0.4):
            self.op("emit %d" % self.arg())

    def t3(self):
        """chains of owners of owners, random list order, 0-2 empty slots; the head is disconnected"""
        self.tags.add("T3 owner chain")
        n = 2 + self.r.below(3)
        chain = [self.cell("own") for _ in range(n)]
        if self.r.chance(0.8):
            chain.append(self.cell("fn"))
        empties = [self.cell("empty") for _ in range(self.r.below(3))]
        if self.r.chance(0.5):
            order = list(reversed(chain))           # every victim lies before its owner …
            for e in empties:
                self.insert_at(order, e, 1, len(order))
            self.tags.add("T3 victims before owners")
        else:
            order = self.r.shuffle(chain + empties)
        self.fillers(order, 0.15)
        self.layout(order)
        self.owns(self.r.shuffle(list(zip(chain, chain[1:]))))
        head = chain[0] if self.r.chance(0.8) else self.r.choice(chain)
        if self.r.chance(0.5):
            self.op("disc K%d" % head)
        else:
            D = self.r.choice([k for k in self.cells if self.cells[k][0] != "empty"])
            fD = self.cells[D][1]
            self.body(fD, "disc K%d" % head)
            self.inner_probes(fD, chain[:2])
            self.op("emit %d" % self.arg())
        if self.r.chance(0.4):
            self.op(self.r.choice(["emit %d" % self.arg(), "disc K%d" % self.r.choice(chain), "clear"]))

    def t4(self):
        """clear() during an emission (from a body) and outside, with owners and empty slots"""
        self.tags.add("T4 clear")
        fns = [self.cell("fn") for _ in range(1 + self.r.below(3))]
        owners = [self.cell("own") for _ in range(1 + self.r.below(2))]
        empties = [self.cell("empty") for _ in range(self.r.below(3))]
        self.layout(self.r.shuffle(fns + owners + empties))
        pairs = []
        for o in owners:
            for _ in range(1 + self.r.below(2)):
                v = self.r.choice(fns + owners)
                if v != o:
                    pairs.append((o, v))
        self.owns(pairs)
        if self.r.chance(0.6):
            D = self.r.choice(fns + owners)
            fD = self.cells[D][1]
            if self.r.chance(0.3):
                self.body(fD, "disc K%d" % self.r.choice(owners))
            self.body(fD, "clear")
            self.inner_probes(fD, fns[:1] + owners[:1])
            if self.r.chance(0.3):
                self.body(fD, "conn K%d %s" % (self.newk(), self.r.choice(["fn:%d" % fD, "empty", "own:%d" % fD])))
            self.op("emit %d" % self.arg())
            self.tags.add("T4 clear from a body")
        else:
            if self.r.chance(0.4):
                self.op("emit %d" % self.arg())
            self.op("clear")
        k = self.cell(self.r.choice(["fn", "empty", "own"]))
        self.op("%s K%d %s" % (self.r.choice(["conn", "connf"]), k, self.spec(k)))
        self.op("emit %d" % self.arg())
        if self.r.chance(0.3):
            self.op("clear")

    def t5(self):
        """nested emissions (up to toodeep), bodies that connect new cells, ownership cycles"""
        self.tags.add("T5 nested / connect in body / cycle")
        what = self.r.weighted([("nest", 4), ("connect", 3), ("cycle", 4)])
        if what == "cycle":
            A, B = self.cell("own"), self.cell("own")
            others = [self.cell(self.r.choice(["fn", "empty"])) for _ in range(self.r.below(3))]
            self.layout(self.r.shuffle([A, B] + others))
            pairs = [(A, B), (B, A)]
            if others and self.r.chance(0.5):
                pairs.append((self.r.choice([A, B]), others[0]))
            self.owns(self.r.shuffle(pairs))
            self.tags.add("T5 cycle")
            if self.r.chance(0.5):
                self.op("disc K%d" % self.r.choice([A, B]))
            else:
                D = self.r.choice([k for k in [A, B] + others if self.cells[k][0] != "empty"])
                self.body(self.cells[D][1], "disc K%d" % self.r.choice([A, B]))
                self.op("emit %d" % self.arg())
            return
        fns = [self.cell(self.r.choice(["fn", "fn", "own"])) for _ in range(1 + self.r.below(2))]
        empties = [self.cell("empty") for _ in range(self.r.below(2))]
        self.layout(self.r.shuffle(fns + empties))
        D = self.r.choice(fns)
        fD = self.cells[D][1]
        if what == "nest" and self.emitters < 2:
            self.emitters += 1
            if self.r.chance(0.5):
                self.body(fD, "size?")
            self.body(fD, "emit %d" % self.arg())
            if self.r.chance(0.5):
                self.body(fD, self.r.choice(["disc K%d" % self.r.choice(fns), "clear", "size?",
                                             "connf K%d empty" % self.newk()]))
            self.tags.add("T5 nested emit")
        else:
            for _ in range(1 + self.r.below(2)):
                k = self.newk()
                sp = self.r.choice(["fn:%d" % self.newf(), "empty", "own:%d" % self.newf(), "fn:%d" % fD])
                self.body(fD, "%s K%d %s" % (self.r.choice(["conn", "connf"]), k, sp))
                if sp.startswith("own") and self.r.chance(0.7):
                    self.body(fD, "own K%d K%d" % (k, self.r.choice(fns)))
                if self.r.chance(0.3):
                    self.body(fD, "disc K%d" % k)
            self.inner_probes(fD, fns[:1])
            self.tags.add("T5 connect in a body")
        self.op("emit %d" % self.arg())
        self.op("emit %d" % self.arg())
        if self.r.chance(0.4):
            self.op("disc K%d" % D)

    def any_name(self):
        if self.cells and not self.r.chance(0.06):
            return self.r.choice(list(self.cells))
        return 1 + self.r.below(self.nk + 3)

    def rand_line(self, in_body=False):
        w = [("conn", 5), ("own", 4), ("disc", 4), ("connected", 2), ("clear", 1), ("emit", 0 if in_body else 4),
             ("size", 2), ("live", 2), ("bad", 0)]
        if self.r.chance(0.03):
            w[-1] = ("bad", 30)
        k = self.r.weighted(w)
        if k == "conn":
            if self.r.chance(0.05) and self.cells:
                n = self.r.choice(list(self.cells))                 # `exists`
                return "conn K%d fn:%d" % (n, self.newf())
            n = self.cell(self.r.weighted([("fn", 4), ("empty", 2), ("own", 4)]))
            if in_body:
                self.cells.pop(n)                                   # (exists only once the body ran)
                return "%s K%d %s" % (self.r.choice(["conn", "connf"]), n,
                                      self.r.choice(["fn:%d", "own:%d"]) % self.newf() if self.r.chance(0.7) else "empty")
            return "%s K%d %s" % (self.r.choice(["conn", "connf"]), n, self.spec(n))
        if k == "own":
            owners = [n for n, (kd, _) in self.cells.items() if kd == "own"]
            a = self.r.choice(owners) if owners and not self.r.chance(0.1) else self.any_name()
            return "own K%d K%d" % (a, self.any_name())
        if k == "disc":
            return "disc K%d" % self.any_name()
        if k == "connected":
            return "connected? K%d" % self.any_name()
        if k == "clear":
            return "clear"
        if k == "emit":
            return "emit %d" % self.arg()
        if k == "size":
            return "size?"
        if k == "live":
            return "live? %d" % (self.r.choice(self.fids()) if self.fids() and not self.r.chance(0.1) else self.r.below(9))
        return self.r.choice(["emit", "conn K1", "conn K1 fn", "conn 7 fn:1", "own K1", "disc 3", "frob K1", "end",
                              "emit x", "live? f1", "conn K%d own:" % self.newk(), "size? 1", "clear all",
                              "body x", "connected? K", "own K1 K2 K3"])

    def t6(self):
        """random soup"""
        self.tags.add("T6 soup")
        for _ in range(2 + self.r.below(8)):
            self.op(self.rand_line())
        fs = self.fids()
        for _ in range(self.r.below(3)):
            if not fs:
                break
            f = self.r.choice(fs)
            for _ in range(1 + self.r.below(3)):
                if self.r.chance(0.12) and self.emitters < 2:
                    self.emitters += 1
                    self.body(f, "emit %d" % self.arg())
                else:
                    self.body(f, self.rand_line(in_body=True))
        for _ in range(1 + self.r.below(5)):
            self.op(self.rand_line() if self.r.chance(0.6) else "emit %d" % self.arg())

    def program(self):
        tw = {"C03": [("t1", 10), ("t2", 8), ("t3", 8), ("t4", 4), ("t5", 4), ("t6", 4)],
              "C07": [("t1", 10), ("t2", 8), ("t3", 9), ("t4", 3), ("t5", 3), ("t6", 4)]}[self.focus]
        n_tpl = self.r.weighted([(1, 6), (2, 3), (3, 1)])
        for i in range(n_tpl):
            getattr(self, self.r.weighted(tw))()
            if self.r.chance(0.25):
                for _ in range(1 + self.r.below(2)):
                    self.op(self.rand_line())
        # closing queries: everything the monitor can judge
        self.probes(force=True)
        for k in self.cells:
            self.top.append("connected? K%d" % k)
        lines = []
        items = list(self.bodies.items())
        late = []
        for f, ls in items:
            blk = ["body %d" % f] + ["  " + x for x in ls] + ["end"]
            if self.r.chance(0.1):
                late.append(blk)                                    # (a body may stand anywhere in the text)
            else:
                lines += blk
        lines += self.top
        for blk in late:
            lines += blk
        return "\n".join(lines)


def gen_program(rng, focus):
    g = Gen(rng, focus)
    return g.program(), g.tags


# --------------------------------------------------------------------------------------
# running both sides
# --------------------------------------------------------------------------------------

def build():
    return common.build_harness(HARNESS_SRC, "sweepl")


def _batch_text(progs, ids):
    return "".join("=== %d\n%s\n" % (i, progs[i]) for i in ids)


def _split_out(out):
    res, cur = {}, None
    for line in out.split("\n"):
        if line.startswith("=== "):
            try:
                cur = int(line[4:].strip())
            except ValueError:
                cur = None
                continue
            res[cur] = []
        elif cur is not None and line:
            res[cur].append(line)
    return res


def _complete(lines):
    return bool(lines) and lines[-1].startswith("0 final ")


def _san_summary(out):
    m = re.search(r"(SUMMARY: [^\n]*)", out)
    if m:
        return m.group(1)[:300]
    m = re.search(r"(ERROR: [^\n]*|runtime error: [^\n]*)", out)
    if m:
        return m.group(1)[:300]
    return out[-300:].replace("\n", " | ")


def run_impl(exe, progs, ids, timeout=120):
    """returns {id: (lines, crash_text or None)}; after a crash the rest of the batch is re-run"""
    res = {}
    todo = list(ids)
    while todo:
        try:
            p = subprocess.run([exe], input=_batch_text(progs, todo), stdout=subprocess.PIPE,
                               stderr=subprocess.PIPE, text=True, errors="replace", timeout=timeout,
                               env=dict(os.environ, **SAN_ENV))
            rc, so, se = p.returncode, p.stdout, p.stderr
        except subprocess.TimeoutExpired as e:
            if len(todo) > 1:                      # find the program that hangs
                for i in todo:
                    res.update(run_impl(exe, progs, [i], min(timeout, 20)))
                return res
            so = e.stdout or ""
            if isinstance(so, bytes):
                so = so.decode(errors="replace")
            rc, se = 124, "the harness does not terminate (timeout)"
        outs = _split_out(so)
        done = 0
        for i in todo:
            if i in outs and _complete(outs[i]):
                res[i] = (outs[i], None)
                done += 1
            else:
                break
        if done == len(todo):
            if rc != 0:
                # (LeakSanitizer reports at exit: attribute by re-running one by one)
                if len(todo) == 1:
                    res[todo[0]] = (res[todo[0]][0], "exit %d: %s" % (rc, _san_summary(se)))
                else:
                    for i in todo:
                        res.update(run_impl(exe, progs, [i], timeout))
            break
        bad = todo[done]
        res[bad] = (outs.get(bad, []), "exit %d: %s" % (rc, _san_summary(se)))
        todo = todo[done + 1:]
    return res


def run_model(progs, ids, timeout=300):
    p = subprocess.run([common.driver(), "sweepl"], input=_batch_text(progs, ids), stdout=subprocess.PIPE,
                       stderr=subprocess.STDOUT, text=True, errors="replace", timeout=timeout)
    outs = _split_out(p.stdout)
    return {i: outs.get(i, ["<model produced no output: %s>" % p.stdout[-200:]]) for i in ids}


def run_both(exe, progs, jobs=None):
    """progs: list of program texts -> list of dicts {impl, crash, model}"""
    from concurrent.futures import ThreadPoolExecutor
    jobs = jobs or common.NCPU
    n = len(progs)
    if n == 0:
        return []
    nchunks = max(1, min(n, jobs * 2))
    chunks = [list(range(k, n, nchunks)) for k in range(nchunks)]
    impl, model = {}, {}

    def one(task):
        kind, ids = task
        return kind, (run_impl(exe, progs, ids) if kind == "impl" else run_model(progs, ids))

    with ThreadPoolExecutor(max_workers=jobs) as ex:
        for kind, r in ex.map(one, [("impl", c) for c in chunks] + [("model", c) for c in chunks]):
            (impl if kind == "impl" else model).update(r)
    return [{"impl": impl[i][0], "crash": impl[i][1], "model": model[i]} for i in range(n)]


# --------------------------------------------------------------------------------------
# the trace-only monitor (quiescent clauses read off the real trace alone)
# --------------------------------------------------------------------------------------

_OPLINE = re.compile(r"^(\d+) (.*) => (\S+)$")
_CALL = re.compile(r"^(\d+) call f(\d+) (\d+)$")
_SPEC = re.compile(r"^(fn|own):(\d+)$")


class Shadow:
    """what the monitor keeps from the trace: names (kind, functor id), ownership edges and the set Gone"""

    def __init__(self):
        self.kind = collections.OrderedDict()      # name -> 'fn' | 'own' | 'empty'
        self.fid = {}                              # name -> functor id (functor cells)
        self.owned = collections.defaultdict(list)
        self.gone = set()

    def feed(self, words, res):
        """one performed operation line (any depth)"""
        op = words[0]
        if op in ("conn", "connf") and res == "ok" and len(words) == 3:
            m = _SPEC.match(words[2])
            self.kind[words[1]] = m.group(1) if m else "empty"
            if m:
                self.fid[words[1]] = m.group(2)
        elif op == "own" and res == "ok" and len(words) == 3:
            self.owned[words[1]].append(words[2])
        elif op == "disc" and res == "ok" and len(words) == 2:
            self.gone.add(words[1])
        elif op == "clear" and res == "ok":
            self.gone |= set(self.kind)

    def close(self):
        """owner in Gone => everything it owns is in Gone (when a top-level operation has finished, every
        disconnected cell has been erased and its functor destroyed)"""
        work = [k for k in self.gone if k in self.owned]
        while work:
            k = work.pop()
            for v in self.owned.get(k, ()):
                if v not in self.gone:
                    self.gone.add(v)
                    work.append(v)

    def functor_cells(self):
        return [k for k, kd in self.kind.items() if kd != "empty" and k not in self.gone]

    def empty_cells(self):
        return [k for k, kd in self.kind.items() if kd == "empty" and k not in self.gone]


def monitor(prog, lines):
    """Quiescent clauses, evaluated on the real trace alone — no list, no exec_count_, no model.  From the trace:
    for each name its kind and functor id (`conn … => ok`), the ownership edges (`own a b => ok`) and
    Gone = the names disconnected by a `disc K => ok` at any depth or by any `clear => ok` at any depth (all names
    defined so far), closed — when a top-level operation has finished — under "owner in Gone ⇒ everything it owns is
    in Gone".  After every TOP-LEVEL operation:

      L  (C07; live_count_spec + quiescent_clean)  `live? f => n`: n = number of names with functor id f not in Gone.
      S  (C03; size_spec + quiescent_clean)        `size? => n`: #(functor cells not in Gone) ≤ n ≤
                                                   #(functor cells not in Gone) + #(empty cells not in Gone)
                                                   (an empty slot stays until some sweep drops it: known finding K1).
      C  `connected? K => 1` iff K is a functor cell not in Gone.
      A  the last line is `0 final live=0`.
    """
    bad = []
    sh = Shadow()
    final = False
    for idx, ln in enumerate(lines):
        if ln.startswith("0 final "):
            final = True
            if ln != "0 final live=0":
                bad.append("A (C07): after the destruction of the signal functor copies are still alive: `%s`" % ln)
            continue
        m = _OPLINE.match(ln)
        if not m:
            continue
        d, words, res = int(m.group(1)), m.group(2).split(" "), m.group(3)
        sh.feed(words, res)
        if d != 0:
            continue
        sh.close()
        op = words[0]
        if op == "live?" and len(words) == 2 and res.isdigit():
            exp = sum(1 for k in sh.functor_cells() if sh.fid.get(k) == words[1])
            if int(res) != exp:
                bad.append("L (C07 a disconnected slot's functor is destroyed once no emission is running): trace "
                           "line %d `%s` but %d connected slot(s) hold functor f%s (connected: %s; disconnected "
                           "directly or through their owners: %s)"
                           % (idx + 1, ln[2:], exp, words[1], _names(sh.functor_cells()), _names(sorted(sh.gone, key=_kn))))
        elif op == "size?" and len(words) == 1 and res.isdigit():
            lo = len(sh.functor_cells())
            hi = lo + len(sh.empty_cells())
            if not lo <= int(res) <= hi:
                bad.append("S (C03 size() counts no disconnected slot once no emission is running): trace line %d "
                           "`%s` but %d connected functor slot(s) %s and %d connected empty slot(s) %s exist "
                           "(disconnected directly or through their owners: %s)"
                           % (idx + 1, ln[2:], lo, _names(sh.functor_cells()), hi - lo, _names(sh.empty_cells()),
                              _names(sorted(sh.gone, key=_kn))))
        elif op == "connected?" and len(words) == 2 and res in ("0", "1"):
            k = words[1]
            exp = "1" if (k in sh.kind and sh.kind[k] != "empty" and k not in sh.gone) else "0"
            if res != exp:
                bad.append("C (C03/C07 connected() of a connection): trace line %d `%s`, expected %s (%s)"
                           % (idx + 1, ln[2:], exp,
                              "disconnected directly or through its owner" if k in sh.gone else "never disconnected"))
    if lines and not final:
        bad.append("A: the trace has no final line")
    return bad


def _kn(k):
    return int(k[1:]) if k[1:].isdigit() else 0


def _names(ks):
    return "{" + ",".join(ks) + "}"


# --------------------------------------------------------------------------------------
# classification, shrinking, statistics
# --------------------------------------------------------------------------------------

def classify(prog, r):
    """-> (kind, detail) with kind in None | 'monitor' | 'disagree'"""
    tail = " (program: %s)" % "; ".join(l.strip() for l in prog.split("\n") if l.strip() and not l.strip().startswith("#"))[:400]
    if r["crash"]:
        return "monitor", "slot list: the real library fails under the sanitizers: " + r["crash"] + tail
    mon = monitor(prog, r["impl"])
    if mon:
        return "monitor", "slot list: " + mon[0] + tail
    if r["impl"] != r["model"]:
        for k, (a, b) in enumerate(zip(r["impl"] + ["<end>"], r["model"] + ["<end>"])):
            if a != b:
                return "disagree", ("slot list: implementation and model differ at trace line %d: impl `%s` "
                                    "model `%s`" % (k + 1, a, b)) + tail
        return "disagree", "slot list: implementation and model traces differ in length" + tail
    return None, ""


def _clause(detail):
    m = re.match(r"slot list: (\w+) ", detail)
    return m.group(1) if m else ""


def parse_items(prog):
    """program text -> [('top', line) | ('body', fid_word, [lines])], block structure as `parseProg` sees it"""
    items = []
    cur = None
    for raw in prog.split("\n"):
        l = " ".join(w for w in raw.strip().split(" ") if w)
        if not l or l.startswith("#"):
            continue
        w = l.split(" ")
        if cur is None and len(w) == 2 and w[0] == "body" and w[1].isdigit():
            cur = ("body", w[1], [])
            items.append(cur)
        elif cur is not None and w == ["end"]:
            cur = None
        elif cur is not None:
            cur[2].append(l)
        else:
            items.append(("top", l))
    return items


def render_items(items):
    out = []
    for it in items:
        if it[0] == "top":
            out.append(it[1])
        else:
            out += ["body " + it[1]] + ["  " + x for x in it[2]] + ["end"]
    return "\n".join(out)


def _size(items):
    return sum(1 if it[0] == "top" else 2 + len(it[2]) for it in items)


def shrink(exe, prog, kind, clause="", budget=14, deadline=None):
    """greedy removal, all candidates of a round evaluated in one parallel batch: chunks of items (a body block
    is one item: it is removed as a whole), single lines inside bodies.  The block structure stays intact."""
    items = parse_items(prog)
    for _ in range(budget):
        if deadline is not None and time.time() > deadline:
            break
        cands = []
        n = len(items)
        for size in sorted({max(1, n // 2), max(1, n // 4), max(1, n // 8), 1}, reverse=True):
            for i in range(0, n, size):
                c = items[:i] + items[i + size:]
                if c and c not in cands:
                    cands.append(c)
        for i, it in enumerate(items):
            if it[0] == "body":
                for j in range(len(it[2])):
                    cands.append(items[:i] + [("body", it[1], it[2][:j] + it[2][j + 1:])] + items[i + 1:])
        texts = [render_items(c) for c in cands]
        rs = run_both(exe, texts)
        best = None
        for c, t, r in zip(cands, texts, rs):
            k, d = classify(t, r)
            if k == kind and (not clause or _clause(d) == clause) and (best is None or _size(c) < _size(best)):
                best = c
        if best is None:
            break
        items = best
    return render_items(items)


def nontrivial(lines):
    done = 0
    interesting = False
    calls = 0
    for ln in lines:
        if _CALL.match(ln):
            calls += 1
            continue
        m = _OPLINE.match(ln)
        if not m:
            continue
        if m.group(3) in REFUSALS:
            continue
        done += 1
        op = m.group(2).split(" ")[0]
        if op in ("disc", "clear") or (op == "emit" and calls):
            interesting = True
    return done >= 3 and interesting


def features(lines):
    """cheap per-program features, from the trace alone"""
    feats = set()
    sh = Shadow()
    order = []                   # list order as connected (names), never shrunk
    maxd = 0
    calls = 0
    deferred_owner = []          # owners (with edges) disconnected while an emission runs, or owned by a disconnected owner
    for ln in lines:
        c = _CALL.match(ln)
        if c:
            maxd = max(maxd, int(c.group(1)))
            calls += 1
            continue
        m = _OPLINE.match(ln)
        if not m:
            continue
        d, words, res = int(m.group(1)), m.group(2).split(" "), m.group(3)
        op = words[0]
        if res in REFUSALS:
            feats.add("refusal `%s`" % res)
            continue
        if op in ("conn", "connf") and res == "ok":
            if op == "conn":
                order.append(words[1])
            else:
                order.insert(0, words[1])
            if d > 0:
                feats.add("connect during an emission")
            if words[2] == "empty":
                feats.add("empty slot connected")
        if op == "disc" and res == "ok":
            k = words[1]
            if k in sh.kind and k not in sh.gone:
                if d > 0:
                    feats.add("disconnect during an emission")
                    if sh.owned.get(k):
                        feats.add("owner (with connections) disconnected during an emission")
                        deferred_owner.append(k)
                    if sh.kind.get(k) == "empty":
                        feats.add("empty slot disconnected during an emission")
                else:
                    if sh.owned.get(k):
                        feats.add("owner (with connections) disconnected outside an emission")
                    for v in sh.owned.get(k, ()):
                        if sh.owned.get(v) and v not in sh.gone:
                            feats.add("owner of an owner disconnected outside an emission (inner owner dies in the sweep)")
                            deferred_owner.append(v)
        if op == "clear":
            feats.add("clear during an emission" if d > 0 else "clear outside an emission")
            if d > 0:
                deferred_owner += [k for k in sh.kind if sh.owned.get(k) and k not in sh.gone]
        if op == "own" and res == "ok":
            if words[1] in sh.owned.get(words[2], ()):
                feats.add("ownership cycle")
            if d > 0:
                feats.add("own during an emission")
        if op == "size?" and d == 0 and res.isdigit():
            sh.close()
            if int(res) > len(sh.functor_cells()):
                feats.add("K1: size() counts an empty slot at top level")
        sh.feed(words, res)
    # transitive: owners owned by an owner that dies in a sweep die in a sweep too
    seen = set()
    work = list(deferred_owner)
    while work:
        k = work.pop()
        if k in seen:
            continue
        seen.add(k)
        work += [v for v in sh.owned.get(k, ()) if sh.owned.get(v)]
    pos = {k: i for i, k in enumerate(order)}
    for x in seen:
        feats.add("owner destroyed inside a sweep")
        for v in sh.owned.get(x, ()):
            if v in pos and x in pos and pos[v] < pos[x]:
                feats.add("… with an owned slot BEFORE it in the list")
                if any(sh.kind.get(e) == "empty" and pos[e] > pos[x] for e in pos):
                    feats.add("… and an empty slot AFTER it (the shape of the R4/R6/R8 sweep mutants)")
    if maxd >= 2:
        feats.add("nested emission")
    if calls:
        feats.add("emission that invokes a functor")
    return feats


def stats(progs, results, tags):
    ops = collections.Counter()
    res = collections.Counter()
    feats = collections.Counter()
    depth_ops = collections.Counter()
    lens = []
    tlens = []
    for prog, r, tg in zip(progs, results, tags):
        lens.append(len(prog.split("\n")))
        tlens.append(len(r["model"]))
        for t in tg:
            feats["template:" + t] += 1
        for ln in r["model"]:
            m = _OPLINE.match(ln)
            if not m:
                if _CALL.match(ln):
                    ops["<call>"] += 1
                continue
            op = m.group(2).split(" ")[0]
            rr = m.group(3)
            ops[op if rr != "badop" else "<bad line>"] += 1
            res[rr if not rr.isdigit() else "<number>"] += 1
            depth_ops[m.group(1)] += 1
        for f in features(r["model"]):
            feats[f] += 1
    n = max(1, len(progs))
    return {
        "programs": len(progs),
        "lines_per_program_avg": round(sum(lens) / n, 1),
        "trace_lines_per_program_avg": round(sum(tlens) / n, 1),
        "operations": dict(ops.most_common()),
        "operations_by_depth": dict(sorted(depth_ops.items())),
        "results": dict(res.most_common()),
        "features": dict(feats.most_common()),
    }


def load_corpus():
    out = []
    if os.path.isdir(CORPUS):
        for f in sorted(os.listdir(CORPUS)):
            if f.endswith(".prog"):
                out.append((f, open(os.path.join(CORPUS, f)).read().strip()))
    return out


def stage(ctx, focus="C03", use_corpus=None):
    """the differential stage; same dict shape as a property module's correspondence(ctx)"""
    t0 = time.time()
    out = {"evaluations": 0, "distinct_nontrivial": 0, "rule": RULE, "samples": [], "distribution": {},
           "disagreements": [], "monitor_failures": [], "infra_errors": [], "traces_validated_against_impl": 0}
    if focus not in FOCI:
        out["infra_errors"].append("sweepl.stage: unknown focus %r" % (focus,))
        return out
    if use_corpus is None:
        use_corpus = not os.environ.get("SWEEPL_NO_CORPUS")
    if not os.path.exists(common.driver()):
        ok, log = common.lean_build(MODULE)
        if not ok:
            out["infra_errors"].append("lake build failed: " + log[-800:])
            return out
    exe, log = build()
    if not exe:
        out["infra_errors"].append("sweepl harness does not compile: " + log[-1500:])
        return out
    t_build = time.time() - t0
    n = 24000 if ctx.thorough else 3000
    corpus = load_corpus() if use_corpus else []
    progs, tags, names = [], [], []
    for f, text in corpus:
        progs.append(text)
        tags.append({"corpus"})
        names.append("corpus/SweepL/" + f)
    for i in range(n):
        p, tg = gen_program(ctx.rng, focus)
        progs.append(p)
        tags.append(tg)
        names.append("generated#%d" % i)
    t_gen = time.time() - t0 - t_build
    try:
        results = run_both(exe, progs)
    except subprocess.TimeoutExpired as e:
        out["infra_errors"].append("sweepl run timed out: %r" % (e,))
        return out
    t_run = time.time() - t0 - t_build - t_gen
    fails = []
    distinct = set()
    for name, prog, r in zip(names, progs, results):
        kind, detail = classify(prog, r)
        if r["model"] and nontrivial(r["model"]) and prog not in distinct:
            distinct.add(prog)
        if kind:
            fails.append((name, prog, r, kind, detail))
    # shrink and report (at most a few of each kind; the rest is counted); shortest programs first
    reported = collections.Counter()
    fails_sorted = sorted(fails, key=lambda f: (not f[0].startswith("corpus/"), len(f[1])))
    for name, prog, r, kind, detail in fails_sorted:
        if reported[kind] >= 2:
            reported[kind + "_more"] += 1
            continue
        reported[kind] += 1
        small = prog
        try:
            small = shrink(exe, prog, kind, _clause(detail) if kind == "monitor" else "",
                           deadline=t0 + (240 if ctx.thorough else 20))
        except Exception as e:  # shrinking is best effort
            out["infra_errors"].append("shrink failed: %r" % (e,))
        rs = run_both(exe, [small])[0]
        k2, d2 = classify(small, rs)
        case = {"input": small, "shrunk_from": prog if small != prog else "", "name": name, "focus": focus, "component": "SweepL",
                "impl": "\n".join(rs["impl"]) + (("\n<" + rs["crash"] + ">") if rs["crash"] else ""),
                "model": "\n".join(rs["model"]), "detail": d2 or detail}
        (out["monitor_failures"] if kind == "monitor" else out["disagreements"]).append(case)
    out["evaluations"] = len(progs)
    out["traces_validated_against_impl"] = sum(1 for r in results if not r["crash"] and r["impl"] == r["model"])
    out["distinct_nontrivial"] = len(distinct)
    out["samples"] = [p for p in progs[len(corpus):len(corpus) + 3]] + [p for p in progs[:2]]
    d = stats(progs, results, tags)
    d["focus"] = focus
    d["corpus_programs"] = len(corpus)
    d["failing_programs_total"] = len(fails)
    d["failing_generated"] = sum(1 for f in fails if f[0].startswith("generated#"))
    d["failing_corpus"] = sum(1 for f in fails if f[0].startswith("corpus/"))
    d["failing_by_kind"] = dict(collections.Counter(f[3] for f in fails))
    d["harness_build"] = log
    d["wall_build_s"] = round(t_build, 1)
    d["wall_generate_s"] = round(t_gen, 1)
    d["wall_run_s"] = round(t_run, 1)
    d["wall_s"] = round(time.time() - t0, 1)
    out["distribution"] = d
    return out


def replay_text(prog):
    """run one program on both sides, print what happens; returns 1 when it fails"""
    exe, log = build()
    if not exe:
        print("harness does not compile:", log[-800:])
        return 2
    r = run_both(exe, [prog])[0]
    kind, detail = classify(prog, r)
    print("--- program\n" + prog)
    print("--- real library\n" + "\n".join(r["impl"]) + (("\n<" + r["crash"] + ">") if r["crash"] else ""))
    print("--- model\n" + "\n".join(r["model"]))
    print("--- verdict:", kind or "agree", detail)
    return 1 if kind else 0


if __name__ == "__main__":
    if len(sys.argv) >= 3 and sys.argv[1] == "--replay":
        sys.exit(replay_text(open(sys.argv[2]).read().strip()))

    class _Ctx:
        pass

    c = _Ctx()
    c.seed = int(sys.argv[2]) if len(sys.argv) > 2 else int(os.environ.get("VERIF_SEED", "1") or "1")
    c.rng = common.Rng(c.seed)
    c.thorough = len(sys.argv) > 3 and sys.argv[3] == "thorough"
    c.tier = "thorough" if c.thorough else "quick"
    res = stage(c, sys.argv[1] if len(sys.argv) > 1 else "C03")
    import json
    if os.environ.get("SWEEPL_JSON"):
        json.dump(res, open(os.environ["SWEEPL_JSON"], "w"), indent=1)
    d = res["distribution"]
    print("sweepl %s seed=%d: evaluations %d (corpus %s), distinct %d, validated %d, failing %s (generated %s, corpus "
          "%s), wall %ss (build %ss [%s], generate %ss, run %ss)" % (
              d.get("focus"), c.seed, res["evaluations"], d.get("corpus_programs"), res["distinct_nontrivial"],
              res["traces_validated_against_impl"], d.get("failing_programs_total"), d.get("failing_generated"),
              d.get("failing_corpus"), d.get("wall_s"), d.get("wall_build_s"), d.get("harness_build"),
              d.get("wall_generate_s"), d.get("wall_run_s")))
    if os.environ.get("SWEEPL_VERBOSE"):
        print(" operations:", d.get("operations"))
        print(" by depth:", d.get("operations_by_depth"))
    print(" results:", d.get("results"))
    print(" features:", d.get("features"))
    for k in ("monitor_failures", "disagreements"):
        for cse in res[k]:
            print(" %s%s [%s]: %s" % (k[:-1], " (KNOWN)" if cse.get("known") else "", cse.get("name"),
                                      cse["detail"][:300]))
            if not cse.get("known"):
                print("   | " + cse["input"].replace("\n", "\n   | "))
    for e in res["infra_errors"]:
        print(" infra:", e[:500])
    sys.exit(1 if (res["disagreements"] or [m for m in res["monitor_failures"] if not m.get("known")]
                   or res["infra_errors"]) else 0)
